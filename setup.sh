#!/bin/sh
# builds the engines from sources in /verif (offline; llvm-14 and libz3 dev files are pre-installed)
set -e
cd "$(dirname "$0")"
mkdir -p bin evidence replays
CXXF="$(llvm-config-14 --cxxflags | sed 's/-std=[^ ]*//; s/-fno-exceptions//')"
g++ -O2 -std=c++17 $CXXF engine/symx.cpp -o bin/symx $(llvm-config-14 --ldflags) -lLLVM-14 -lz3 -pthread &
if [ -f engine/ir2c.cpp ]; then g++ -O2 -std=c++17 $CXXF engine/ir2c.cpp -o bin/ir2c $(llvm-config-14 --ldflags) -lLLVM-14 & fi
wait
test -x bin/symx
echo "setup ok"
