#!/usr/bin/env python3
"""regenerates MANIFEST.json from checks/*.py (CLAIMS below); run after adding a check"""
import json, os
CLAIMS = {
 "C01": ("symbolic execution of the real assembler vs. reference MSP430 and RV32I encoders (written from the manuals) over symbolic operands/registers and engine-enumerated forms, plus the symbolic-bytes and assembler-side disasm/asm fixpoint harnesses; Z3 decides byte equality", "1 (C01)"),
 "C02": ("symbolic execution of the real two-pass assembler on variable-length instruction forms with symbolic backward/forward operand values; Z3 decides pass-1 label == pass-2 placement", "1 (C02)"),
 "C03": ("symbolic execution of the real file writers/readers on images with symbolic bytes vs. independent format decoders; Z3 decides content/checksum assertions", "1 (C03)"),
 "C04": ("symbolic execution of EvalExpression/Operator/Var (LLVM IR) vs. reference evaluator; Z3 decides every path", "1 (C04)"),
 "C05": ("symbolic execution of the real two-pass assembler on directive templates with symbolic operand values; Z3 decides placement/range/frame assertions", "1 (C05)"),
 "C06": ("symbolic execution of the real assembler on one-instruction programs with the operand symbolic over 2^32 values, incl. self-composition; Z3 decides range/injectivity assertions", "1 (C06)"),
 "C07": ("symbolic execution of disasm_<cpu> -> tokenizer/parse_instruction_<cpu> -> disasm_<cpu> on symbolic bytes; Z3 decides text/length/byte fixpoint assertions", "1 (C07)"),
 "C09": ("differential symbolic execution of the real assembler on a program and its hand expansion with symbolic arguments; Z3 decides image equality", "1 (C09)"),
 "C10": ("symbolic execution of the real conditional-assembly code on templates with symbolic condition operands/operators vs. reference evaluator; Z3 decides branch selection", "1 (C10)"),
 "C11": ("symbolic execution of the real Symbols class on all bounded operation sequences vs. scoping model, plus two-pass templates; Z3 decides value assertions", "1 (C11)"),
 "C12": ("symbolic execution of naken_asm's real main() on the in-memory file system over solver-enumerated single-character corruptions; Z3 decides status/diagnostic/file agreement", "1 (C12)"),
 "C13": ("self-composition: naken_asm's real main() executed twice symbolically with different reporting options on solver-enumerated sources; symbolic number of preceding lines across output types; uninitialised-storage taint on perturbed instruction forms of 66 CPUs; Z3 decides status/output equality and concreteness of emitted bytes", "1 (C13)"),
 "C14": ("differential symbolic execution: SimulateMsp430::run(step) vs. a reference step from the user's guide over symbolic registers/opcode/memory; Z3 decides state equality", "1 (C14)"),
 "C15": ("symbolic execution of one run(step) of each simulator class from a fully symbolic register/flag/memory state, with self-composition for determinism; Z3 decides bounds/div/return assertions", "1 (C15)"),
 "C16": ("symbolic execution of naken_asm's real main() on generated hostile sources with engine-chosen lengths/depths, and of the two-pass assembler on every instruction form with a symbolic 32-bit operand; every memory access bounds-checked, call depth and steps bounded", "1 (C16)"),
 "C17": ("symbolic execution of the real object-file readers on skeleton files with symbolic header fields/characters; every access bounds-checked, loops bounded by the step budget", "1 (C17)"),
 "C18": ("symbolic execution of naken_asm's real main() with -l on programs with symbolic bytes/operands; listing parsed with branch-free arithmetic; Z3 decides listed byte == output byte and coverage", "1 (C18)"),
 "C19": ("symbolic execution of the real naken_util memory commands (write*/print*, address and number parsers, Memory) with symbolic values and engine-enumerated addresses/spellings; Z3 decides read-back equality and frame conditions", "1 (C19)"),
 "C20": ("symbolic execution of the real main() linking a crafted ELF32 object / ar archive (symbolic instruction words, engine-enumerated call sites, targets and program calls) through Linker, imports_obj/imports_ar, AsmContext::link and link_function_mips; Z3 decides placement-once, byte identity and call binding on the output image", "1 (C20)"),
 "C08": ("symbolic execution of each disasm_<cpu>() over symbolic byte windows; Z3 decides length/termination/bounds/locality assertions", "1 (C08)"),
}
NOT_YET = {}
ALL = ["C%02d" % i for i in range(1, 21)]
checks = []
for pid, (tech, ref) in sorted(CLAIMS.items()):
    checks.append({
        "property_id": pid,
        "quick_cmd": "./check %s quick" % pid,
        "thorough_cmd": "./check %s thorough" % pid,
        "evidence_file": "/verif/evidence/%s.json" % pid,
        "replay_cmd_template": "./check %s --replay {path}" % pid,
        "engine": "symx",
        "level_claimed": {"category": "model_checking",
                          "text": "Bounded symbolic execution of the repository's real functions (clang LLVM IR of /repo's working tree, regenerated every run) with Z3 deciding every branch and assertion for all input values inside the stated bounds; counterexamples are replayed on a native ASan/UBSan build before being reported.",
                          "design_ref": "DESIGN.md section " + ref},
        "level_note": "Trusted base: clang-14 IR generation, the symx interpreter (engine/), Z3 4.8.12, the engine's libc models (snprintf/str*/stdio/malloc), the harness oracles (harness/*.cpp). Bounds and stubs are listed per job in the evidence file.",
        "technique": tech,
    })
na = [{"property_id": p, "reason": NOT_YET.get(p, "check not built yet in this round (work in progress; see DESIGN.md section 1 for the planned harness)")} for p in ALL if p not in CLAIMS]
m = {
 "version": 1,
 "setup_cmd": "./setup.sh",
 "hooks": {"guard": "NAKEN_ASM_VERIF", "enable": "checks compile /repo's sources themselves (clang -DNAKEN_ASM_VERIF ... -emit-llvm); no hook is needed or present",
           "baseline_off_cmd": "cd /repo && make && make tests", "source_commits": [], "add_only": True},
 "engines": [{"name": "symx", "path": "engine/symx.cpp", "serves_properties": sorted(CLAIMS), "kind_free_text": "path-wise symbolic executor for LLVM-14 IR written for this task; Z3 (libz3 4.8.12) decides feasibility of every branch, every memory access bound and every assertion"}],
 "checks": checks,
 "not_applicable": na,
 "notes": "Exit codes of ./check: 0 held within bounds, 1 + VIOLATION line (replayed natively), 2 inconclusive (budget/solver/engine disagreement; never reported as held).",
}
json.dump(m, open(os.path.join(os.path.dirname(os.path.abspath(__file__)), "MANIFEST.json"), "w"), indent=1)
print("claims:", sorted(CLAIMS))
