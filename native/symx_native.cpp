// Native replay runtime for symx harnesses: inputs come from the file named
// by SYMX_INPUTS (one value per line, in creation order); assertion failures
// are printed as "SYMX-ASSERT-FAIL: <msg>" and make the process exit 1.
#include "symx.h"
#include <stdio.h>
#include <stdlib.h>
#include <unistd.h>
#include <string.h>
#include <vector>
#include <string>
static std::vector<uint64_t> g_in; static size_t g_cur; static bool g_loaded; static int g_fail;
static void (*g_hook)(int);
static void load()
{
  if (g_loaded) return; g_loaded = true;
  const char *f = getenv("SYMX_INPUTS"); if (!f) return;
  FILE *in = fopen(f, "r"); if (!in) return;
  char line[256];
  while (fgets(line, sizeof line, in)) { if (line[0] == '#' || line[0] == '\n') continue; g_in.push_back(strtoull(line, 0, 0)); }
  fclose(in);
}
static uint64_t next() { load(); uint64_t v = g_cur < g_in.size() ? g_in[g_cur] : 0; g_cur++; return v; }
static void at_end() { fflush(stdout); }
extern "C" {
uint8_t symx_u8(const char *) { return (uint8_t)next(); }
uint16_t symx_u16(const char *) { return (uint16_t)next(); }
uint32_t symx_u32(const char *) { return (uint32_t)next(); }
uint64_t symx_u64(const char *) { return next(); }
void symx_make_symbolic(void *p, size_t n, const char *) { for (size_t i = 0; i < n; i++) ((uint8_t *)p)[i] = (uint8_t)next(); }
void symx_assume(int c) { if (!c) { fprintf(stderr, "SYMX-ASSUME-FALSE\n"); fflush(stdout); _Exit(g_fail ? 1 : 77); } }
void symx_assert(int c, const char *msg) { if (!c) { fprintf(stderr, "SYMX-ASSERT-FAIL: %s\n", msg); g_fail = 1; } }
void symx_note(const char *tag, uint64_t v) { fprintf(stderr, "NOTE %s %llu\n", tag, (unsigned long long)v); }
void symx_note_str(const char *tag, const char *t) { fprintf(stderr, "NOTE %s %s\n", tag, t); }
void symx_cover(const char *) {}
uint64_t symx_concretize(uint64_t v) { return v; }
int symx_is_symbolic(uint64_t) { return 0; }
static void exit_trampoline(int status, void *) { if (g_hook) { void (*h)(int) = g_hook; g_hook = 0; h(status); } fflush(stdout); if (g_fail) _Exit(1); }
void symx_on_exit(void (*h)(int)) { if (!g_hook) on_exit(exit_trampoline, 0); g_hook = h; }
static int g_capture;
void symx_capture_stdout(int on) { if (on && !g_capture) { g_capture = 1; fflush(stdout); freopen("__stdout.txt", "w", stdout); } }
uint64_t symx_obj_remaining(const void *) { return 1u << 30; }
int symx_mem_equal(const void *a, const void *b, size_t n) { return memcmp(a, b, n) == 0; }
void symx_file_put(const char *name, const void *d, size_t n) { FILE *f = fopen(name, "wb"); if (f) { fwrite(d, 1, n, f); fclose(f); } }
long symx_file_size(const char *name) { FILE *f = fopen(name, "rb"); if (!f) return -1; fseek(f, 0, SEEK_END); long n = ftell(f); fclose(f); return n; }
long symx_file_get(const char *name, void *buf, size_t max) { if (!strcmp(name, "<stdout>")) { fflush(stdout); name = "__stdout.txt"; } FILE *f = fopen(name, "rb"); if (!f) return -1; long n = fread(buf, 1, max, f); fclose(f); return n; }
int symx_native_failed() { return g_fail; }
}
extern "C" void harness_main();
#ifndef SYMX_NATIVE_ENTRY
#define SYMX_NATIVE_ENTRY harness_main
#endif
extern "C" void SYMX_NATIVE_ENTRY();
int main()
{
  setvbuf(stdout, 0, _IOLBF, 0);
  SYMX_NATIVE_ENTRY();
  g_hook = 0;
  at_end();
  return g_fail ? 1 : 0;
}
