/* Harness API shared by the symbolic engine (symx), the native replay
   runtime (native/symx_native.cpp) and the CBMC route (E1). */
#ifndef SYMX_H
#define SYMX_H
#include <stdint.h>
#include <stddef.h>
#ifdef __cplusplus
extern "C" {
#endif
uint8_t  symx_u8(const char *name);
uint16_t symx_u16(const char *name);
uint32_t symx_u32(const char *name);
uint64_t symx_u64(const char *name);
void symx_make_symbolic(void *p, size_t n, const char *name);
void symx_assume(int c);
void symx_assert(int c, const char *msg);
void symx_note(const char *tag, uint64_t v);
void symx_note_str(const char *tag, const char *text);
void symx_cover(const char *tag);
uint64_t symx_concretize(uint64_t v);       /* forks over the feasible values, returns a concrete one per path */
int symx_is_symbolic(uint64_t v);
void symx_on_exit(void (*hook)(int));
void symx_capture_stdout(int on);
uint64_t symx_obj_remaining(const void *p); /* bytes from p to the end of its object (native: large) */
int symx_mem_equal(const void *a, const void *b, size_t n);
void symx_file_put(const char *name, const void *data, size_t n);
long symx_file_size(const char *name);
long symx_file_get(const char *name, void *buf, size_t max);
#ifdef __cplusplus
}
static inline uint32_t symx_fork(const char *name, uint32_t n)
{
  uint32_t v = symx_u32(name);
  symx_assume(v < n);
  return (uint32_t)symx_concretize(v);
}
#endif
#endif
