"""Driver library: builds LLVM bitcode from /repo's working tree, runs the
symbolic engine(s) on harnesses, replays counterexamples natively, writes
evidence.  Python stdlib only."""
import atexit, concurrent.futures as cf, json, os, re, shutil, subprocess, sys, tempfile, time, hashlib

VERIF = os.path.dirname(os.path.dirname(os.path.abspath(__file__)))
REPO = os.environ.get("VERIF_REPO", "/repo")
SYMX = os.path.join(VERIF, "bin", "symx")
IR2C = os.path.join(VERIF, "bin", "ir2c")
NCPU = int(os.environ.get("VERIF_JOBS", str(os.cpu_count() or 8)))

CLANG_FLAGS = ["clang++-14", "-std=c++17", "-O1", "-D__NO_INLINE__", "-Xclang", "-disable-llvm-passes",
               "-fno-exceptions", "-fno-rtti", "-fno-strict-aliasing", "-gline-tables-only",
               "-DNAKEN_ASM_VERIF", "-I" + REPO, "-I" + os.path.join(VERIF, "include"), "-I" + os.path.join(VERIF, "harness"),
               "-Wno-everything", "-c", "-emit-llvm"]
NATIVE_FLAGS = ["clang++-14", "-std=c++17", "-O0", "-g", "-fno-omit-frame-pointer", "-fsanitize=address,undefined",
                "-DNAKEN_ASM_VERIF", "-I" + REPO, "-I" + os.path.join(VERIF, "include"), "-I" + os.path.join(VERIF, "harness"), "-w"]

_scratch = None


def scratch():
    global _scratch
    if _scratch is None:
        base = os.environ.get("TMPDIR", "/tmp")
        _scratch = tempfile.mkdtemp(prefix="verif.%d." % os.getpid(), dir=base)
        atexit.register(lambda: shutil.rmtree(_scratch, ignore_errors=True))
    return _scratch


def run(cmd, timeout=None, cwd=None, env=None, stdin=None):
    t0 = time.time()
    try:
        p = subprocess.run(cmd, stdout=subprocess.PIPE, stderr=subprocess.STDOUT, timeout=timeout, cwd=cwd, env=env, input=stdin)
        return p.returncode, p.stdout.decode("utf-8", "replace"), time.time() - t0
    except subprocess.TimeoutExpired as e:
        out = (e.stdout or b"").decode("utf-8", "replace")
        return -9, out + "\n[timeout after %ss]" % timeout, time.time() - t0


def repo_tus(include_main=False):
    tus = []
    for d in ("core", "common", "fileio", "asm", "disasm", "simulate", "table"):
        p = os.path.join(REPO, d)
        for f in sorted(os.listdir(p)):
            if f.endswith(".cpp"):
                tus.append(os.path.join(d, f))
    return tus


class Inconclusive(Exception):
    pass


_repo_bc = None


def build_repo_bc():
    """compile every library TU of /repo's working tree to bitcode, link, promote allocas.  Once per check run."""
    global _repo_bc
    if _repo_bc:
        return _repo_bc
    sc = scratch()
    outdir = os.path.join(sc, "bc")
    os.makedirs(outdir, exist_ok=True)
    tus = repo_tus()

    def comp(tu):
        o = os.path.join(outdir, tu.replace("/", "_") + ".bc")
        rc, out, _ = run(CLANG_FLAGS + [os.path.join(REPO, tu), "-o", o])
        return tu, o, rc, out
    with cf.ThreadPoolExecutor(NCPU) as ex:
        res = list(ex.map(comp, tus))
    bad = [(tu, out) for tu, o, rc, out in res if rc != 0]
    if bad:
        raise Inconclusive("repo TU does not compile to IR: %s\n%s" % (bad[0][0], bad[0][1][-2000:]))
    # main programs: compiled with main renamed so that harnesses can call them
    mains = []
    for prog in ("naken_asm", "naken_util"):
        o = os.path.join(outdir, "main_%s.bc" % prog)
        rc, out, _ = run(CLANG_FLAGS + ["-Dmain=%s_main" % prog, os.path.join(REPO, "main", prog + ".cpp"), "-o", o])
        if rc != 0:
            raise Inconclusive("main/%s.cpp does not compile to IR\n%s" % (prog, out[-2000:]))
        mains.append(o)
    allbc = os.path.join(sc, "repo_all.bc")
    rc, out, _ = run(["llvm-link-14"] + [o for _, o, _, _ in res] + ["-o", allbc])
    if rc != 0:
        raise Inconclusive("llvm-link of repo failed: " + out[-2000:])
    opt = os.path.join(sc, "repo_opt.bc")
    rc, out, _ = run(["opt-14", "-passes=function(sroa,mem2reg)", allbc, "-o", opt])
    if rc != 0:
        raise Inconclusive("opt of repo failed: " + out[-2000:])
    _repo_bc = {"all": opt, "naken_asm": mains[0], "naken_util": mains[1]}
    return _repo_bc


_native = None


def build_repo_native():
    """ASan/UBSan build of the library TUs for replaying counterexamples.  Built lazily, once per run."""
    global _native
    if _native:
        return _native
    sc = scratch()
    outdir = os.path.join(sc, "nat")
    os.makedirs(outdir, exist_ok=True)
    tus = repo_tus()

    def comp(tu):
        o = os.path.join(outdir, tu.replace("/", "_") + ".o")
        rc, out, _ = run(NATIVE_FLAGS + ["-c", os.path.join(REPO, tu), "-o", o])
        return tu, o, rc, out
    with cf.ThreadPoolExecutor(NCPU) as ex:
        res = list(ex.map(comp, tus))
    bad = [(tu, out) for tu, o, rc, out in res if rc != 0]
    if bad:
        raise Inconclusive("native build failed: %s\n%s" % (bad[0][0], bad[0][1][-2000:]))
    lib = os.path.join(sc, "librepo.a")
    run(["ar", "rcs", lib] + [o for _, o, _, _ in res])
    mains = {}
    for prog in ("naken_asm", "naken_util"):
        o = os.path.join(outdir, "main_%s.o" % prog)
        rc, out, _ = run(NATIVE_FLAGS + ["-Dmain=%s_main" % prog, "-c", os.path.join(REPO, "main", prog + ".cpp"), "-o", o])
        mains[prog] = o
    rt = os.path.join(outdir, "symx_native.o")
    rc, out, _ = run(NATIVE_FLAGS + ["-c", os.path.join(VERIF, "native", "symx_native.cpp"), "-o", rt])
    if rc != 0:
        raise Inconclusive("native runtime build failed: " + out)
    _native = {"lib": lib, "rt": rt, "mains": mains}
    return _native


class Job:
    def __init__(self, name, harness, defines=None, entry="harness_main", max_paths=200000, max_steps=5000000,
                 timeout=600, query_timeout_ms=30000, extra_bc=(), uf_muldiv=False, allow_partial=False,
                 min_completed=1, engine="symx", tag=None, samples=6, max_violations=40, render_classes=0, false_first=False, merge_ptrs=False, support_bits=0):
        self.name = name
        self.harness = harness
        self.defines = dict(defines or {})
        self.entry = entry
        self.max_paths = max_paths
        self.max_steps = max_steps
        self.timeout = timeout
        self.query_timeout_ms = query_timeout_ms
        self.extra_bc = list(extra_bc)
        self.uf_muldiv = uf_muldiv
        self.allow_partial = allow_partial
        self.min_completed = min_completed
        self.engine = engine
        self.tag = tag or name
        self.samples = samples
        self.max_violations = max_violations
        self.render_classes = render_classes
        self.false_first = false_first
        self.merge_ptrs = merge_ptrs
        self.support_bits = support_bits

    def dflags(self):
        out = []
        for k, v in sorted(self.defines.items()):
            out.append("-D%s=%s" % (k, v) if v is not None else "-D%s" % k)
        return out


def build_job_module(job):
    bc = build_repo_bc()
    sc = scratch()
    d = os.path.join(sc, "job." + re.sub(r"[^A-Za-z0-9_.-]", "_", job.name))
    os.makedirs(d, exist_ok=True)
    hbc = os.path.join(d, "h.bc")
    src = os.path.join(VERIF, "harness", job.harness)
    rc, out, _ = run(CLANG_FLAGS + job.dflags() + [src, "-o", hbc])
    if rc != 0:
        raise Inconclusive("harness %s does not compile: %s" % (job.harness, out[-3000:]))
    linked = os.path.join(d, "l.bc")
    cmd = ["llvm-link-14", bc["all"]] + [bc[x] for x in job.extra_bc] + ["--override", hbc, "-o", linked]
    rc, out, _ = run(cmd)
    if rc != 0:
        raise Inconclusive("link failed for %s: %s" % (job.name, out[-3000:]))
    final = os.path.join(d, "m.bc")
    rc, out, _ = run(["opt-14", "-passes=internalize,globaldce,function(sroa,mem2reg)",
                      "-internalize-public-api-list=" + job.entry, linked, "-o", final])
    if rc != 0:
        raise Inconclusive("opt failed for %s: %s" % (job.name, out[-3000:]))
    os.unlink(linked)
    return d, final


def run_symx(job, seed=0, inputs=None):
    d, mod = build_job_module(job)
    outj = os.path.join(d, "r.json" if inputs is None else "rc.json")
    cmd = [SYMX, mod, job.entry, "--out", outj, "--max-paths", str(job.max_paths), "--max-steps", str(job.max_steps),
           "--timeout", str(job.timeout), "--query-timeout-ms", str(job.query_timeout_ms), "--seed", str(seed),
           "--samples", str(job.samples), "--max-violations", str(job.max_violations)]
    if job.uf_muldiv:
        cmd.append("--uf-muldiv")
    if job.false_first:
        cmd.append("--false-first")
    if job.merge_ptrs:
        cmd.append("--merge-ptrs")
    if job.allow_partial:
        cmd.append("--tolerate-unknown")
    if job.support_bits:
        cmd += ["--support-bits", str(job.support_bits)]
    if job.render_classes:
        cmd += ["--render-classes", str(job.render_classes)]
    if inputs is not None:
        cmd += ["--inputs", inputs]
    rc, out, wall = run(cmd, timeout=job.timeout + 120)
    res = None
    if os.path.exists(outj):
        try:
            res = json.load(open(outj))
        except Exception as e:
            res = None
    return {"job": job, "rc": rc, "out": out, "wall": wall, "res": res, "dir": d}


def build_native(job):
    nat = build_repo_native()
    d = os.path.join(scratch(), "job." + re.sub(r"[^A-Za-z0-9_.-]", "_", job.name))
    os.makedirs(d, exist_ok=True)
    exe = os.path.join(d, "native")
    src = os.path.join(VERIF, "harness", job.harness)
    entry_def = [] if job.entry == "harness_main" else ["-DSYMX_NATIVE_ENTRY=" + job.entry]
    objs = [nat["mains"][x] for x in job.extra_bc]
    rt = nat["rt"]
    if entry_def:
        rt = os.path.join(d, "rt.o")
        run(NATIVE_FLAGS + entry_def + ["-c", os.path.join(VERIF, "native", "symx_native.cpp"), "-o", rt])
    rc, out, _ = run(NATIVE_FLAGS + job.dflags() + [src, rt] + objs + [nat["lib"], "-Wl,--allow-multiple-definition", "-o", exe])
    if rc != 0:
        raise Inconclusive("native harness build failed for %s: %s" % (job.name, out[-3000:]))
    return exe


MEM_KINDS = {"oob", "null", "uaf", "rostore", "badfree", "doublefree", "ptrbytes", "badcall", "ptrcmp", "hugealloc", "recursion"}


def replay(job, viol, exe=None):
    """run the native sanitizer build on the solver's assignment; returns (reproduced, input_file, output)"""
    if exe is None:
        exe = build_native(job)
    d = os.path.dirname(exe)
    h = hashlib.sha1((viol["kind"] + viol["msg"] + viol["fn"]).encode()).hexdigest()[:10]
    inp = os.path.join(d, "cex_%s.txt" % h)
    with open(inp, "w") as f:
        f.write("# %s | %s | %s\n" % (viol["kind"], viol["msg"], viol["fn"]))
        for i in viol["inputs"]:
            f.write("%s\n" % i["value"])
    rundir = os.path.join(d, "run_" + h)
    os.makedirs(rundir, exist_ok=True)
    env = dict(os.environ, SYMX_INPUTS=inp, ASAN_OPTIONS="detect_leaks=0:halt_on_error=1:abort_on_error=0:hard_rss_limit_mb=6000", UBSAN_OPTIONS="print_stacktrace=0:halt_on_error=0")
    rc, out, wall = run([exe], timeout=10 if viol["kind"] == "budget" else 30, cwd=rundir, env=env)
    shutil.rmtree(rundir, ignore_errors=True)
    k = viol["kind"]
    rep = False
    if k == "assert":
        rep = ("SYMX-ASSERT-FAIL: " + viol["msg"]) in out
    elif k == "hugealloc":
        rep = rc in (-9, -6, 134, -11, 139) or "bad_alloc" in out or "AddressSanitizer" in out
    elif k in MEM_KINDS or k == "uninit":
        rep = "AddressSanitizer" in out or "runtime error" in out or rc in (-11, -6, -7, 139, 134)
    elif k in ("div0", "divovf"):
        rep = "division" in out or rc in (-8, 136)
    elif k == "shift":
        rep = "shift exponent" in out
    elif k == "unreachable":
        rep = "reached the end" in out or "unreachable" in out or rc in (-4, 132)
    elif k == "budget":
        rep = rc == -9
    elif k == "abort":
        rep = rc in (-6, 134) or "Assertion" in out
    elif k == "fpconv":
        rep = "outside the range" in out
    else:
        rep = rc not in (0, 77)
    return rep, inp, out


def load_known():
    path = os.path.join(VERIF, "known_findings.txt")
    known = []
    if os.path.exists(path):
        for line in open(path):
            line = line.strip()
            if not line or line.startswith("#"):
                continue
            m = re.match(r"finding:\s+property=(\S+)\s+job=(\S+)\s+kind=(\S+)\s+fn=(\S+)\s+msg=\"(.*?)\"\s*::\s*(.*)", line)
            if m:
                known.append({"property": m.group(1), "job": m.group(2), "kind": m.group(3), "fn": m.group(4), "msg": m.group(5), "desc": m.group(6)})
    return known


def match_known(known, prop, jobname, v):
    for k in known:
        if k["property"] != prop:
            continue
        if not re.fullmatch(k["job"], jobname):
            continue
        if k["kind"] != v["kind"]:
            continue
        if k["fn"] != "*" and k["fn"] != v["fn"]:
            continue
        if k["msg"] and k["msg"] not in v["msg"]:
            continue
        return k
    return None


def check_property(prop, tier, jobs, level_text, assumptions, functions_note="", extra_cov=None, validations=None):
    """run all jobs in parallel, replay violations, print verdict lines, write evidence; returns exit code"""
    t0 = time.time()
    seed = int(os.environ.get("VERIF_SEED", "0") or 0)
    known = load_known()
    os.makedirs(os.path.join(VERIF, "evidence"), exist_ok=True)
    os.makedirs(os.path.join(VERIF, "replays"), exist_ok=True)
    for f in os.listdir(os.path.join(VERIF, "replays")):
        if f.startswith(prop + "_") or f.startswith("unconfirmed_" + prop + "_"):
            os.unlink(os.path.join(VERIF, "replays", f))
    try:
        build_repo_bc()
    except Inconclusive as e:
        print("INCONCLUSIVE property=%s: %s" % (prop, e))
        write_evidence(prop, tier, seed, [], time.time() - t0, level_text, assumptions + ["BUILD FAILED: " + str(e)[:300]], 0, [], [], {})
        return 2
    results = []
    with cf.ThreadPoolExecutor(NCPU) as ex:
        futs = {}
        for j in jobs:
            futs[ex.submit(_safe_run, j, seed)] = j
        for fu in cf.as_completed(futs):
            results.append(fu.result())
    # second chance: a job that gave no verdict (engine killed, solver answered unknown, budget ran out on a job that
    # must finish) is run once more, with no other jobs of the first round competing, DFS order, twice the time budget (at most 10 more minutes)
    # and three times the per-query timeout; its second result replaces the first
    def _no_verdict(r):
        res = r["res"]
        if res is None:
            return True
        if res["violations"]:
            return False
        return bool(res.get("inconclusive")) or (res.get("pending", 0) > 0 and not r["job"].allow_partial)
    again = [r for r in results if _no_verdict(r)]
    if again:
        import copy
        with cf.ThreadPoolExecutor(NCPU) as ex:
            futs = {}
            for r in again:
                j2 = copy.copy(r["job"]); j2.timeout = min(2 * j2.timeout, j2.timeout + 600); j2.query_timeout_ms = 3 * j2.query_timeout_ms
                futs[ex.submit(_safe_run, j2, 0)] = r
            for fu in cf.as_completed(futs):
                r2 = fu.result(); r0 = futs[fu]
                r2["job"] = r0["job"]; r2["retried"] = True
                results[results.index(r0)] = r2
        print("RETRIED property=%s: %s" % (prop, ", ".join(r["job"].name for r in again)))
    results.sort(key=lambda r: r["job"].name)
    violations, known_hits, inconclusive = [], [], []
    nreplayed = 0
    for r in results:
        j = r["job"]
        res = r["res"]
        if res is None:
            inconclusive.append("%s: engine failed (rc=%s): %s" % (j.name, r["rc"], r["out"][-600:].replace("\n", " | ")))
            continue
        exe = None
        for v in res["violations"]:
            k = match_known(known, prop, j.name, v)
            if k:
                known_hits.append((j, v, k))
                continue
            try:
                if exe is None:
                    exe = build_native(j)
                rep, inp, out = replay(j, v, exe)
            except Inconclusive as e:
                inconclusive.append("%s: replay build failed: %s" % (j.name, str(e)[:500]))
                continue
            nreplayed += 1
            if rep:
                dst = os.path.join(VERIF, "replays", "%s_%s_%s.txt" % (prop, re.sub(r"[^A-Za-z0-9_.-]", "_", j.name), os.path.basename(inp)[4:-4]))
                with open(dst, "w") as f:
                    f.write("# property=%s job=%s harness=%s defines=%s entry=%s\n" % (prop, j.name, j.harness, json.dumps(j.defines), j.entry))
                    f.write("# kind=%s fn=%s loc=%s\n# msg=%s\n" % (v["kind"], v["fn"], v["loc"], v["msg"]))
                    for n in v.get("notes", []):
                        f.write("# note %s = %s\n" % (n[0], n[1]))
                    f.write("# native replay output (tail): %s\n" % out[-400:].replace("\n", " | "))
                    f.write(open(inp).read())
                violations.append((j, v, dst))
            else:
                # keep the assignment for triage (replays/unconfirmed_*): it is not a verdict
                dst = os.path.join(VERIF, "replays", "unconfirmed_%s_%s_%s.txt" % (prop, re.sub(r"[^A-Za-z0-9_.-]", "_", j.name), os.path.basename(inp)[4:-4]))
                try:
                    with open(dst, "w") as f:
                        f.write("# UNCONFIRMED property=%s job=%s harness=%s defines=%s\n# kind=%s fn=%s loc=%s\n# msg=%s\n" % (prop, j.name, j.harness, json.dumps(j.defines), v["kind"], v["fn"], v["loc"], v["msg"]))
                        for n in v.get("notes", []):
                            f.write("# note %s = %s\n" % (n[0], n[1]))
                        f.write("# native output (tail): %s\n" % out[-600:].replace("\n", " | "))
                        f.write(open(inp).read())
                except Exception:
                    pass
                inconclusive.append("%s: counterexample [%s] %s in %s did not reproduce natively (engine/stub disagreement)" % (j.name, v["kind"], v["msg"], v["fn"]))
        if res.get("inconclusive"):
            inconclusive.append("%s: %s" % (j.name, res.get("inconclusive_why") or "solver gave no verdict"))
        elif res.get("pending", 0) > 0 and not j.allow_partial and len(res["violations"]) < j.max_violations:
            inconclusive.append("%s: %s (pending=%s)" % (j.name, res.get("inconclusive_why") or "budget exhausted", res.get("pending")))
        if res["completed"] < j.min_completed:
            inconclusive.append("%s: vacuity: only %d completed paths (minimum %d)" % (j.name, res["completed"], j.min_completed))
    # validations: list of (name, ok, detail)
    nval = 0
    for (vn, ok, detail) in (validations or []):
        nval += 1
        if not ok:
            inconclusive.append("encoder validation failed: %s: %s" % (vn, detail))
    seen = set()
    for (j, v, k) in known_hits:
        key = (k["desc"])
        if key in seen:
            continue
        seen.add(key)
        print("KNOWN-FINDING: property=%s %s [job %s: %s in %s]" % (prop, k["desc"], j.name, v["msg"], v["fn"]))
    for (j, v, dst) in violations:
        print("VIOLATION property=%s replay=%s" % (prop, dst))
        print("  job=%s kind=%s fn=%s loc=%s msg=%s" % (j.name, v["kind"], v["fn"], v["loc"], v["msg"]))
    for m in inconclusive:
        print("INCONCLUSIVE property=%s: %s" % (prop, m))
    wall = time.time() - t0
    write_evidence(prop, tier, seed, results, wall, level_text, assumptions, nreplayed + nval, violations, known_hits, extra_cov or {}, inconclusive)
    tot_paths = sum((r["res"] or {}).get("completed", 0) for r in results)
    tot_q = sum((r["res"] or {}).get("queries", 0) for r in results)
    print("property=%s tier=%s jobs=%d completed_paths=%d solver_queries=%d violations=%d known=%d inconclusive=%d wall=%.1fs" % (
        prop, tier, len(results), tot_paths, tot_q, len(violations), len(seen), len(inconclusive), wall))
    if violations:
        return 1
    if inconclusive:
        return 2
    return 0


def _safe_run(j, seed):
    try:
        return run_symx(j, seed)
    except Inconclusive as e:
        return {"job": j, "rc": 3, "out": str(e), "wall": 0, "res": None, "dir": None}
    except Exception as e:
        return {"job": j, "rc": 3, "out": "driver exception: %r" % e, "wall": 0, "res": None, "dir": None}


def write_evidence(prop, tier, seed, results, wall, level_text, assumptions, nvalidated, violations, known_hits, extra_cov, inconclusive=()):
    states = 0
    transitions = 0
    funcs = set()
    externals = set()
    samples = []
    jobs = []
    queries = 0
    solver_s = 0.0
    peak = 0
    asserts = 0
    covers = {}
    for r in results:
        res = r["res"]
        j = r["job"]
        if not res:
            jobs.append({"job": j.name, "failed": True})
            continue
        states += res["completed"]
        transitions += res["forks"] + res["queries"]
        queries += res["queries"]
        solver_s += res["solver_s"]
        asserts += res.get("asserts_checked", 0)
        peak = max(peak, res.get("peak_rss_kb", 0))
        funcs.update(f for f in res["functions"])
        externals.update(res["externals"])
        for c, n in res.get("covers", {}).items():
            covers[c] = covers.get(c, 0) + n
        jobs.append({"job": j.name, "harness": j.harness, "defines": j.defines, "paths_completed": res["completed"], "paths_infeasible": res["infeasible"],
                     "forks": res["forks"], "queries": res["queries"], "solver_s": round(res["solver_s"], 2), "wall_s": round(res["wall_s"], 2),
                     "pending": res["pending"], "violations": len(res["violations"]), "solver_unknown_paths": res.get("solver_unknown_paths", 0), "bounds": {"render_digit_count_classes": res.get("render_classes", 0), "pruned_render_classes": res.get("pruned_render_classes", 0), "max_paths": res["max_paths"], "max_steps_per_path": res["max_steps"], "query_timeout_ms": res["query_timeout_ms"], "time_budget_s": j.timeout},
                     "partial_allowed": j.allow_partial})
        for s in res["samples"][:2]:
            samples.append({"job": j.name, "inputs": s["inputs"], "observed": s["notes"]})
    samples = samples[:40]
    if not samples:
        samples = [{"note": "no completed path"}]
    ev = {
        "property_id": prop, "tier": tier, "seed": seed, "level": "model_checking",
        "coverage": {
            "states": max(states, 0), "transitions": max(transitions, 0),
            "traces_validated_against_impl": nvalidated,
            "samples": samples,
            "explanation": level_text,
            "states_meaning": "completed symbolic paths (each a solver-decided equivalence class of inputs) summed over jobs",
            "transitions_meaning": "solver-decided forks plus solver queries discharged",
            "solver_queries": queries, "solver_s": round(solver_s, 2), "asserts_decided": asserts, "peak_rss_kb": peak,
            "functions_encoded": sorted(funcs)[:400], "functions_encoded_count": len(funcs),
            "external_models_used": sorted(externals),
            "cover_tags": covers,
            "jobs": jobs,
            "known_findings_hit": sorted(set(k["desc"] for (_, _, k) in known_hits)),
            "inconclusive": list(inconclusive),
            "exhaustive": False,
        },
        "assumptions": assumptions,
        "wall_s": round(wall, 2),
        "violations": len(violations),
    }
    ev["coverage"].update(extra_cov)
    if ev["coverage"]["states"] < 1:
        ev["coverage"]["states"] = 0
    path = os.path.join(VERIF, "evidence", prop + ".json")
    tmp = path + ".tmp"
    with open(tmp, "w") as f:
        json.dump(ev, f, indent=1)
    os.replace(tmp, path)
