// C09: macros / defines / equ / repeat / include are transparent: program P (using the abstraction)
// and its hand expansion P' assemble to the same image, location counter and label values.
// T selects the template; a, b, c are symbolic values 0..99 written in decimal.
#include "asmlib.h"
static char P[1200], Q[1200];
static char A[8], B[8], C[8];
#define HDR ".msp430\n.org 0x100\n"
static char *cat3(char *p, const char *s0, const char *s1 = 0, const char *s2 = 0, const char *s3 = 0, const char *s4 = 0, const char *s5 = 0, const char *s6 = 0)
{
  const char *v[7] = { s0, s1, s2, s3, s4, s5, s6 };
  for (int i = 0; i < 7; i++) if (v[i]) p = vp_append(p, v[i]);
  return p;
}
extern "C" void harness_main()
{
  uint32_t a = symx_u8("a"), b = symx_u8("b"), c = symx_u8("c");
  symx_assume(a <= 99 && b <= 99 && c <= 99);
  sprintf(A, "%u", a); sprintf(B, "%u", b); sprintf(C, "%u", c);
  char *p = P, *q = Q;
  p = vp_append(p, HDR); q = vp_append(q, HDR);
#if T == 1      /* object-like define with an expression body */
  p = cat3(p, ".define K (", A, " + 1)\n.db K, K * 2\n");
  q = cat3(q, ".db (", A, " + 1), (", A, " + 1) * 2\n");
#elif T == 2    /* function-like define */
  p = cat3(p, ".define F(x) x + 1\n.db F(", A, "), F(", B, ")\n");
  q = cat3(q, ".db ", A, " + 1, ", B, " + 1\n");
#elif T == 3    /* macro with two parameters, invoked before and after a label */
  p = cat3(p, ".macro M(x, y)\n.db x, y + 1\n.endm\nM(", A, ", ", B, ")\nlab:\nM(");
  p = cat3(p, B, ", ", C, ")\n.dc16 lab\n");
  q = cat3(q, ".db ", A, ", ", B, " + 1\nlab:\n.db ");
  q = cat3(q, B, ", ", C, " + 1\n.dc16 lab\n");
#elif T == 4    /* nested macros */
  p = cat3(p, ".macro IN(x)\n.db x\n.endm\n.macro OUT(x, y)\nIN(x)\n.db 7\nIN(y)\n.endm\nOUT(", A, ", ", B, ")\n.db 9\n");
  q = cat3(q, ".db ", A, "\n.db 7\n.db ", B, "\n.db 9\n");
#elif T == 5    /* equ */
  p = cat3(p, "K equ ", A, "\n.db K, K + ", B, "\n");
  q = cat3(q, ".db ", A, ", ", A, " + ", B, "\n");
#elif T == 6    /* repeat n emits n copies */
  uint32_t n = 1 + symx_fork("n", 3);
  char N[4]; sprintf(N, "%u", n);
  p = cat3(p, ".db 1\n.repeat ", N, "\n.db ", A, ", ", B, "\n.endr\n.db 2\n");
  q = vp_append(q, ".db 1\n");
  for (uint32_t i = 0; i < n; i++) q = cat3(q, ".db ", A, ", ", B, "\n");
  q = vp_append(q, ".db 2\n");
#elif T == 7    /* include */
  { char inc[64]; char *r = inc; r = cat3(r, ".db ", A, "\ninc_lab:\n.db ", B, "\n"); symx_file_put("inc.asm", inc, strlen(inc)); }
  p = cat3(p, ".db 1\n.include \"inc.asm\"\n.db 2\n.dc16 inc_lab\n");
  q = cat3(q, ".db 1\n.db ", A, "\ninc_lab:\n.db ", B, "\n.db 2\n.dc16 inc_lab\n");
#elif T == 8    /* three parameters, expression arguments, macro used twice */
  p = cat3(p, ".macro M3(x, y, z)\n.db x + y, z\n.dc16 x * 256 + z\n.endm\nM3(", A, ", ", B, " + 1, ", C);
  p = cat3(p, ")\nM3(", C, ", 2, ", A, ")\n");
  q = cat3(q, ".db ", A, " + ", B, " + 1, ", C, "\n");
  q = cat3(q, ".dc16 ", A, " * 256 + ", C, "\n");
  q = cat3(q, ".db ", C, " + 2, ", A, "\n");
  q = cat3(q, ".dc16 ", C, " * 256 + ", A, "\n");
#elif T == 9    /* define used inside a macro body and as a macro argument; register-like identifier argument */
  p = cat3(p, ".define TEN 10\n.macro MV(r, v)\nmov.w #v, r\n.endm\nMV(r5, ", A, ")\nMV(r6, TEN)\n");
  q = cat3(q, "mov.w #", A, ", r5\nmov.w #10, r6\n");
#elif T == 11   /* parameter names that are prefixes of one another, longer name first */
  p = cat3(p, ".macro PUT(val, v)\n.db val, v\n.dc16 v * 256 + val\n.endm\nPUT(", A, ", ", B, ")\n");
  q = cat3(q, ".db ", A, ", ", B, "\n");
  q = cat3(q, ".dc16 ", B, " * 256 + ", A, "\n");
#elif T == 12   /* three prefix-related names in both orders, plus a body identifier that is a prefix of a parameter */
  p = cat3(p, ".define count 7\n.macro Q(p10, p1, p)\n.db p, p1, p10, count\n.endm\n.macro R(c, cnt)\n.db cnt, c\n.endm\nQ(", A, ", ", B, ", ", C);
  p = cat3(p, ")\nR(", C, ", ", A, ")\n");
  q = cat3(q, ".db ", C, ", ", B, ", ", A, ", 7\n");
  q = cat3(q, ".db ", A, ", ", C, "\n");
#elif T == 13   /* macro invoked inside .repeat: n copies of the expansion */
  uint32_t n = 1 + symx_fork("n", 3);
  char N[4]; sprintf(N, "%u", n);
  p = cat3(p, ".macro M(x, y)\n.db x, y + 1\n.endm\n.db 1\n.repeat ", N, "\nM(", A, ", ", B);
  p = cat3(p, ")\n.endr\n.db 2\n");
  q = vp_append(q, ".db 1\n");
  for (uint32_t i = 0; i < n; i++) q = cat3(q, ".db ", A, ", ", B, " + 1\n");
  q = vp_append(q, ".db 2\n");
#elif T == 14   /* a define passed through two macro levels, next to a plain argument */
  p = cat3(p, ".define K ", A, "\n.macro IN(x)\n.db x + 1\n.endm\n.macro OUT(y)\nIN(y)\nIN(K)\n.db y\n.endm\nOUT(", B, ")\nOUT(K)\n.db 9\n");
  q = cat3(q, ".db ", B, " + 1\n.db ", A, " + 1\n.db ", B, "\n");
  q = cat3(q, ".db ", A, " + 1\n.db ", A, " + 1\n.db ", A, "\n.db 9\n");
#elif T == 10   /* character argument */
  p = vp_append(p, ".define CH(x) x\n.db CH('A'), CH(','), CH(')')\n");
  q = vp_append(q, ".db 'A', ',', ')'\n");
#endif
  AsmContext *c1 = new AsmContext(), *c2 = new AsmContext();
#if T == 7
  int e2 = vp_assemble_file(c2, "q.asm", Q);
#else
  int e2 = vp_assemble(c2, Q);
#endif
  symx_assert(e2 == 0, "hand-expanded program assembles (harness sanity)");
  if (e2 != 0) return;
#if T == 7
  int e1 = vp_assemble_file(c1, "p.asm", P);
#else
  int e1 = vp_assemble(c1, P);
#endif
  symx_assert(e1 == 0, "program using the abstraction is accepted like its expansion");
  if (e1 != 0) return;
  symx_assert(c1->address == c2->address, "same location counter as the hand expansion");
  int n2 = c2->address - 0x100;
  int same = 1;
  for (int i = 0; i < n2 && i < 64; i++) same &= c1->memory.read8(0x100 + i) == c2->memory.read8(0x100 + i);
  symx_assert(same, "same image as the hand expansion");
  symx_assert(c1->memory.low_address == c2->memory.low_address && c1->memory.high_address == c2->memory.high_address, "same low/high addresses as the hand expansion");
  symx_cover("compared");
}
