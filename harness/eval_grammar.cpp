// C04(a): EvalExpression::run vs. an independent precedence-climbing evaluator.
// The token stream is a skeleton: SHAPE is a string over
//   N  number (symbolic 64-bit value)      B  binary operator (symbolic kind, 10 kinds)
//   U  unary prefix (symbolic kind: - ~)   (  )  parentheses
// The real tokenizer is replaced by the skeleton stream (tokens_get/tokens_push
// below); atoll is replaced so that number token "k" denotes the symbolic value v[k].
#include "symx.h"
#include <string.h>
#include <stdio.h>
#include "core/AsmContext.h"
#include "core/eval_expression.h"

#ifndef SHAPE
#define SHAPE "NBNBN"
#endif
#define MAXTOK 16
enum { K_NUM, K_MUL, K_DIV, K_MOD, K_ADD, K_SUB, K_SHL, K_SHR, K_AND, K_XOR, K_OR, K_NOT, K_LP, K_RP, K_END };
static const char *k_text[] = { "0", "*", "/", "%", "+", "-", "<<", ">>", "&", "^", "|", "~", "(", ")", "\n" };
static int kind[MAXTOK]; static int numidx[MAXTOK]; static int ntok; static int pos;
static int64_t val[MAXTOK]; static int nval;
static int pb_kind = -1, pb_num;
static int diag;

int tokens_get(AsmContext *asm_context, char *token, int len)
{
  int k, ni;
  if (pb_kind >= 0) { k = pb_kind; ni = pb_num; pb_kind = -1; }
  else if (pos >= ntok) { k = K_END; ni = 0; }
  else { k = kind[pos]; ni = numidx[pos]; pos++; }
  if (k == K_NUM) { token[0] = '0' + ni; token[1] = 0; return TOKEN_NUMBER; }
  strcpy(token, k_text[k]);
  if (k == K_END) return TOKEN_EOL;
  return TOKEN_SYMBOL;
}
void tokens_push(AsmContext *asm_context, const char *token, int token_type)
{
  // only the terminator is ever pushed back on these shapes
  if (token_type == TOKEN_EOL) { pb_kind = K_END; return; }
  if (token_type == TOKEN_NUMBER) { pb_kind = K_NUM; pb_num = token[0] - '0'; return; }
  for (int k = 1; k < K_END; k++) if (strcmp(token, k_text[k]) == 0) { pb_kind = k; return; }
}
extern "C" long long atoll(const char *s) { return val[s[0] - '0']; }
extern "C" unsigned long long strtoull(const char *s, char **end, int base) { return (unsigned long long)val[s[0] - '0']; }
void print_error_unexp(AsmContext *, const char *) { diag = 1; }
void print_error(AsmContext *, const char *) { diag = 1; }

// ---- oracle: conventional grammar, 64-bit two's complement (MIN / -1 wraps to MIN, MIN % -1 is 0),
// "no value" for /0, %0 and shift counts outside 0..63
static int opos; static int o_novalue; static int o_known3;
static int prec_of(int k)
{
  switch (k) { case K_MUL: case K_DIV: case K_MOD: return 6; case K_ADD: case K_SUB: return 5; case K_SHL: case K_SHR: return 4;
               case K_AND: return 3; case K_XOR: return 2; case K_OR: return 1; default: return 0; }
}
static int64_t o_expr(int minprec);
static int64_t o_primary()
{
  int k = opos < ntok ? kind[opos] : K_END;
  if (k == K_NUM) { return val[numidx[opos++]]; }
  if (k == K_SUB) { opos++; return (int64_t)(0 - (uint64_t)o_primary()); }
  // a leading '+' at the start of an expression or parenthesis is accepted (documented in the code: Z80 "(ix+5)")
  if (k == K_ADD && (opos == 0 || kind[opos - 1] == K_LP)) { opos++; return o_primary(); }
  if (k == K_NOT) { opos++; return ~o_primary(); }
  if (k == K_LP) { opos++; int64_t v = o_expr(1); if (opos < ntok && kind[opos] == K_RP) opos++; else o_novalue = 1; return v; }
  o_novalue = 1; return 0;
}
static int64_t o_apply(int k, int64_t a, int64_t b)
{
  uint64_t ua = a, ub = b;
  switch (k)
  {
    case K_MUL: return (int64_t)(ua * ub);
    case K_DIV: if (b == 0) { o_novalue = 1; return 0; } if (b == -1) return (int64_t)(0 - ua); return a / b;
    case K_MOD: if (b == 0) { o_novalue = 1; return 0; } if (b == -1) return 0; return a % b;
    case K_ADD: return (int64_t)(ua + ub);
    case K_SUB: return (int64_t)(ua - ub);
    case K_SHL: if (ub >= 64) { o_novalue = 1; return 0; } return (int64_t)(ua << ub);
    case K_SHR: if (ub >= 64) { o_novalue = 1; return 0; } return a >> ub;
    case K_AND: return a & b; case K_XOR: return a ^ b; case K_OR: return a | b;
  }
  return 0;
}
static int64_t o_expr(int minprec)
{
  int64_t lhs = o_primary();
  while (opos < ntok)
  {
    int k = kind[opos]; int p = prec_of(k);
    if (p == 0 || p < minprec) break;
    opos++;
    int64_t rhs = o_expr(p + 1);
    if (o_novalue == 1) return 0;
    lhs = o_apply(k, lhs, rhs);
    if (o_novalue) return 0;
  }
  return lhs;
}
// known finding C04-prec3: inside one parenthesis level, three consecutive binary operators whose
// precedence strictly tightens (loosest first), e.g. a | b << c - d, are reduced in the wrong order
static int known_three_level()
{
  int depth = 0; int ops[MAXTOK]; int dep[MAXTOK]; int n = 0;
  int expect_operand = 1;
  for (int i = 0; i < ntok; i++)
  {
    int k = kind[i];
    if (k == K_LP) { depth++; expect_operand = 1; continue; }
    if (k == K_RP) { depth--; expect_operand = 0; continue; }
    if (k == K_NUM) { expect_operand = 0; continue; }
    if (expect_operand) continue;         // unary
    ops[n] = prec_of(k); dep[n] = depth; n++; expect_operand = 1;
  }
  // operators at the same depth, consecutive in that depth's sequence
  for (int a = 0; a < n; a++)
    for (int b = a + 1; b < n; b++)
    {
      if (dep[b] != dep[a]) continue;
      int between = 0; for (int x = a + 1; x < b; x++) if (dep[x] == dep[a]) between++;
      if (between) continue;
      for (int c = b + 1; c < n; c++)
      {
        if (dep[c] != dep[a]) continue;
        int btw = 0; for (int x = b + 1; x < c; x++) if (dep[x] == dep[a]) btw++;
        if (btw) continue;
        if (ops[a] < ops[b] && ops[b] < ops[c]) return 1;
      }
    }
  return 0;
}

extern "C" void harness_main()
{
  const char *shape = SHAPE;
  ntok = 0; nval = 0;
  for (int i = 0; shape[i]; i++)
  {
    char c = shape[i];
    if (c == 'N') { kind[ntok] = K_NUM; numidx[ntok] = nval; val[nval] = (int64_t)symx_u64("v"); nval++; }
    else if (c == 'B') { uint8_t k = symx_u8("op"); symx_assume(k >= K_MUL && k <= K_OR); kind[ntok] = (int)symx_concretize(k); }
    else if (c == 'U') { uint8_t k = symx_u8("un"); symx_assume(k == K_SUB || k == K_NOT); kind[ntok] = (int)symx_concretize(k); }
    else if (c == '(') kind[ntok] = K_LP;
    else if (c == ')') kind[ntok] = K_RP;
    ntok++;
  }
  char buf[64]; int bp = 0;
  for (int i = 0; i < ntok; i++) { const char *t = kind[i] == K_NUM ? "n" : k_text[kind[i]]; for (int j = 0; t[j]; j++) buf[bp++] = t[j]; buf[bp++] = ' '; }
  buf[bp] = 0;
  symx_note_str("expr", buf);

  opos = 0; o_novalue = 0;
  int64_t expect = o_expr(1);
  if (opos != ntok && !o_novalue) o_novalue = 1;

  AsmContext *ctx = new AsmContext();
  ctx->pass = 2;
  pos = 0; pb_kind = -1; diag = 0;
  Var answer;
  int ret = eval_expression(ctx, answer);
  symx_note("ret", (uint64_t)(int64_t)ret);
  if (known_three_level()) symx_cover("three-tightening-levels");     // the class that used to be a recorded finding (now repaired and asserted like every other)
  if (o_novalue == 2)
  {
    // shift count outside 0..63: C++ leaves it undefined; the engine reports the UB at the shift itself
    symx_cover("shift-out-of-range");
  }
  else if (o_novalue == 1)
  {
    symx_cover("no-value");
    symx_assert(ret != 0, "an expression without a value (zero divisor / malformed) is rejected");
  }
  else
  {
    symx_cover("valued");
    symx_assert(ret == 0, "a well-formed expression with a value is accepted");
    if (ret == 0)
    {
      symx_assert(answer.get_type() == VAR_INT, "integer expression yields an integer");
      symx_assert(answer.get_int64() == expect, "value equals conventional-precedence 64-bit evaluation");
    }
  }
}
