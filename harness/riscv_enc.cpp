// C01(c): RV32I base instruction encodings vs. "The RISC-V Instruction Set Manual, Volume I" (chapter 2 and the
// RV32I listing in the instruction-set tables), independent of the repository's tables.
// The instruction text is built from a mnemonic chosen by the engine, SYMBOLIC register numbers written as x<n>
// and a SYMBOLIC immediate / target written in decimal; the real two-pass assembler encodes it; the reference
// encoder below computes the expected word from the manual's formats (R/I/S/B/U/J).
//   KIND 1: R-type   2: I-type ALU + jalr   3: shifts   4: loads   5: stores   6: branches   7: lui/auipc   8: jal
//   9: ecall/ebreak
#include "asmlib.h"
#define ORG 0x4000
static char src[400];
static char *put_u(char *p, unsigned v) { p += sprintf(p, "%u", v); return p; }
static char *put_d(char *p, int v) { p += sprintf(p, "%d", v); return p; }
static char *put_x(char *p, unsigned r) { *p++ = 'x'; return put_u(p, r); }
struct Op { const char *name; uint32_t f3, f7, opc; };
static const Op rops[10] = { {"add",0,0,0x33}, {"sub",0,0x20,0x33}, {"sll",1,0,0x33}, {"slt",2,0,0x33}, {"sltu",3,0,0x33}, {"xor",4,0,0x33}, {"srl",5,0,0x33}, {"sra",5,0x20,0x33}, {"or",6,0,0x33}, {"and",7,0,0x33} };
static const Op iops[7] = { {"addi",0,0,0x13}, {"slti",2,0,0x13}, {"sltiu",3,0,0x13}, {"xori",4,0,0x13}, {"ori",6,0,0x13}, {"andi",7,0,0x13}, {"jalr",0,0,0x67} };
static const Op sops[3] = { {"slli",1,0,0x13}, {"srli",5,0,0x13}, {"srai",5,0x20,0x13} };
static const Op lops[5] = { {"lb",0,0,0x03}, {"lh",1,0,0x03}, {"lw",2,0,0x03}, {"lbu",4,0,0x03}, {"lhu",5,0,0x03} };
static const Op stops[3] = { {"sb",0,0,0x23}, {"sh",1,0,0x23}, {"sw",2,0,0x23} };
static const Op bops[6] = { {"beq",0,0,0x63}, {"bne",1,0,0x63}, {"blt",4,0,0x63}, {"bge",5,0,0x63}, {"bltu",6,0,0x63}, {"bgeu",7,0,0x63} };

extern "C" void harness_main()
{
  AsmContext *c = new AsmContext();
  char *p = src;
  p = vp_append(p, ".riscv\n.org 0x4000\n  ");
  uint32_t rd = symx_u8("rd"), rs1 = symx_u8("rs1"), rs2 = symx_u8("rs2");
  symx_assume(rd < 32 && rs1 < 32 && rs2 < 32);
  uint32_t want = 0;
#if KIND == 1
  const Op &o = rops[symx_fork("op", 10)];
  p = vp_append(p, o.name); *p++ = ' '; p = put_x(p, rd); p = vp_append(p, ", "); p = put_x(p, rs1); p = vp_append(p, ", "); p = put_x(p, rs2);
  want = (o.f7 << 25) | (rs2 << 20) | (rs1 << 15) | (o.f3 << 12) | (rd << 7) | o.opc;
#elif KIND == 2
  const Op &o = iops[symx_fork("op", 7)];
  int32_t imm = (int32_t)symx_u32("imm"); symx_assume(imm >= -2048 && imm <= 2047);
  p = vp_append(p, o.name); *p++ = ' '; p = put_x(p, rd); p = vp_append(p, ", "); p = put_x(p, rs1); p = vp_append(p, ", "); p = put_d(p, imm);
  want = (((uint32_t)imm & 0xfff) << 20) | (rs1 << 15) | (o.f3 << 12) | (rd << 7) | o.opc;
#elif KIND == 3
  const Op &o = sops[symx_fork("op", 3)];
  uint32_t sh = symx_u8("shamt"); symx_assume(sh < 32);
  p = vp_append(p, o.name); *p++ = ' '; p = put_x(p, rd); p = vp_append(p, ", "); p = put_x(p, rs1); p = vp_append(p, ", "); p = put_u(p, sh);
  want = (o.f7 << 25) | (sh << 20) | (rs1 << 15) | (o.f3 << 12) | (rd << 7) | o.opc;
#elif KIND == 4
  const Op &o = lops[symx_fork("op", 5)];
  int32_t imm = (int32_t)symx_u32("imm"); symx_assume(imm >= -2048 && imm <= 2047);
  p = vp_append(p, o.name); *p++ = ' '; p = put_x(p, rd); p = vp_append(p, ", "); p = put_d(p, imm); *p++ = '('; p = put_x(p, rs1); *p++ = ')';
  want = (((uint32_t)imm & 0xfff) << 20) | (rs1 << 15) | (o.f3 << 12) | (rd << 7) | o.opc;
#elif KIND == 5
  const Op &o = stops[symx_fork("op", 3)];
  int32_t imm = (int32_t)symx_u32("imm"); symx_assume(imm >= -2048 && imm <= 2047);
  p = vp_append(p, o.name); *p++ = ' '; p = put_x(p, rs2); p = vp_append(p, ", "); p = put_d(p, imm); *p++ = '('; p = put_x(p, rs1); *p++ = ')';
  want = ((((uint32_t)imm >> 5) & 0x7f) << 25) | (rs2 << 20) | (rs1 << 15) | (o.f3 << 12) | (((uint32_t)imm & 0x1f) << 7) | o.opc;
#elif KIND == 6
  const Op &o = bops[symx_fork("op", 6)];
  int32_t off = (int32_t)symx_u32("offset"); symx_assume(off >= -4096 && off <= 4094 && (off & 1) == 0);
  uint32_t target = (uint32_t)(ORG + off);
  p = vp_append(p, o.name); *p++ = ' '; p = put_x(p, rs1); p = vp_append(p, ", "); p = put_x(p, rs2); p = vp_append(p, ", "); p = put_u(p, target);
  uint32_t u = (uint32_t)off;
  want = (((u >> 12) & 1) << 31) | (((u >> 5) & 0x3f) << 25) | (rs2 << 20) | (rs1 << 15) | (o.f3 << 12) | (((u >> 1) & 0xf) << 8) | (((u >> 11) & 1) << 7) | o.opc;
#elif KIND == 7
  int which = symx_fork("op", 2);
  uint32_t imm = symx_u32("imm20"); symx_assume(imm < (1u << 20));
  p = vp_append(p, which ? "auipc " : "lui "); p = put_x(p, rd); p = vp_append(p, ", "); p = put_u(p, imm);
  want = (imm << 12) | (rd << 7) | (which ? 0x17 : 0x37);
#elif KIND == 8
  int32_t off = (int32_t)symx_u32("offset"); symx_assume(off >= -(1 << 20) + ORG * 0 && off <= (1 << 20) - 2 && (off & 1) == 0 && off >= -ORG);
  uint32_t target = (uint32_t)(ORG + off);
  p = vp_append(p, "jal "); p = put_x(p, rd); p = vp_append(p, ", "); p = put_u(p, target);
  uint32_t u = (uint32_t)off;
  want = (((u >> 20) & 1) << 31) | (((u >> 1) & 0x3ff) << 21) | (((u >> 11) & 1) << 20) | (((u >> 12) & 0xff) << 12) | (rd << 7) | 0x6f;
#elif KIND == 9
  int which = symx_fork("op", 2);
  p = vp_append(p, which ? "ebreak" : "ecall");
  want = which ? 0x00100073u : 0x00000073u;
#endif
  p = vp_append(p, "\n");
  symx_note_str("text", src + 21);
  int e = vp_assemble(c, src);
  symx_assert(e == 0, "an RV32I base instruction with operands inside its fields is accepted");
  if (e != 0) return;
  symx_assert(c->address == ORG + 4, "an RV32I base instruction is one 32-bit word");
  uint32_t got = (uint32_t)c->memory.read8(ORG) | ((uint32_t)c->memory.read8(ORG + 1) << 8) | ((uint32_t)c->memory.read8(ORG + 2) << 16) | ((uint32_t)c->memory.read8(ORG + 3) << 24);
  symx_note("got", got); symx_note("want", want);
  symx_assert(got == want, "the emitted word is the encoding the RISC-V manual defines");
  symx_cover("encoded");
}
