// C10: conditional assembly through the real two-pass assembler.
// MODE 1: .if <expr> with SHAPE over  N (symbolic one-digit number)  o (symbolic operator kind)  ! ( )  D (defined(YES))  U (defined(NOPE))
// MODE 2: nesting template with symbolic 0/1 conditions
// MODE 3: malformed conditionals (TEXT) must be rejected
#include "asmlib.h"
static char src[900];
#if MODE == 1
enum { O_EQ, O_LT, O_GT, O_LE, O_GE, O_AND, O_OR, O_N };
static const char *o_text[] = { "==", "<", ">", "<=", ">=", "&&", "||" };
#define MAXT 24
static int tk[MAXT], tv[MAXT], nt, op;    // token kinds: 0 num, 1 oper, 2 not, 3 lp, 4 rp, 5 defined-yes, 6 defined-no
static int o_or();
static int o_prim()
{
  int k = tk[op];
  if (k == 2) { op++; return !o_prim(); }
  if (k == 3) { op++; int v = o_or(); if (tk[op] == 4) op++; return v; }
  if (k == 5) { op++; return 1; }
  if (k == 6) { op++; return 0; }
  return tv[op++];
}
static int o_cmp()
{
  int a = o_prim();
  while (op < nt && tk[op] == 1 && tv[op] <= O_GE)
  {
    int o = tv[op++]; int b = o_prim();
    a = o == O_EQ ? a == b : o == O_LT ? a < b : o == O_GT ? a > b : o == O_LE ? a <= b : a >= b;
  }
  return a;
}
static int o_and() { int a = o_cmp(); while (op < nt && tk[op] == 1 && tv[op] == O_AND) { op++; int b = o_cmp(); a = (a != 0) && (b != 0); } return a; }
static int o_or() { int a = o_and(); while (op < nt && tk[op] == 1 && tv[op] == O_OR) { op++; int b = o_and(); a = (a != 0) || (b != 0); } return a; }
#endif

extern "C" void harness_main()
{
  AsmContext *c = new AsmContext();
  char *p = src;
  p = vp_append(p, ".msp430\n.define YES 1\n.org 0x100\n");
#if MODE == 1
  const char *shape = SHAPE;
  p = vp_append(p, ".if ");
  nt = 0;
  for (int i = 0; shape[i]; i++)
  {
    char s = shape[i];
    if (s == 'N') { uint8_t v = symx_u8("n"); symx_assume(v <= 3); tk[nt] = 0; tv[nt] = v; *p++ = (char)('0' + v); }
    else if (s == 'o') { uint8_t k = symx_u8("op"); symx_assume(k < O_N); int kk = (int)symx_concretize(k); tk[nt] = 1; tv[nt] = kk; p = vp_append(p, o_text[kk]); }
    else if (s == '!') { tk[nt] = 2; *p++ = '!'; }
    else if (s == '(') { tk[nt] = 3; *p++ = '('; }
    else if (s == ')') { tk[nt] = 4; *p++ = ')'; }
    else if (s == 'D') { tk[nt] = 5; p = vp_append(p, "defined(YES)"); }
    else if (s == 'U') { tk[nt] = 6; p = vp_append(p, "defined(NOPE)"); }
    nt++; *p++ = ' '; *p = 0;
  }
  tk[nt] = -1;
  p = vp_append(p, "\n.db 1\n.else\n.db 2\n.endif\n.db 9\n");
  symx_note_str("src", src + 32);
  op = 0; int expect = o_or() != 0;
  int e = vp_assemble(c, src);
  symx_assert(e == 0, "a well-formed conditional is accepted");
  if (e != 0) return;
  symx_assert(c->memory.read8(0x100) == (expect ? 1 : 2), ".if assembles exactly the branch its condition selects");
  symx_assert(c->memory.read8(0x101) == 9 && c->address == 0x102, "the untaken branch leaves no bytes behind");
#elif MODE == 2
  int A = symx_u8("A") & 1, B = symx_u8("B") & 1, C = symx_u8("C") & 1;
  p = vp_append(p, ".if "); *p++ = '0' + A; p = vp_append(p, "\n .db 1\n .if "); *p++ = '0' + B;
  p = vp_append(p, "\n  .db 2\n inb: .define QB 1\n .else\n  .db 3\n .endif\n .db 4\n ina:\n.else\n .db 5\n .ifndef NOPE\n  .db 6\n .endif\n .ifdef NOPE\n  .db 7\n  .ifndef NOPE2\n   .db 70\n  .endif\n  .db 71\n .else\n  .db 8\n .endif\n .if ");
  *p++ = '0' + C;
  p = vp_append(p, "\n  .db 10\n .endif\n.endif\n.db 9\n.ifdef ina\n.db 20\n.endif\n.ifdef inb\n.db 21\n.endif\n.ifdef QB\n.db 22\n.endif\n.db 99\n");
  uint8_t want[24]; int n = 0;
  if (A) { want[n++] = 1; want[n++] = B ? 2 : 3; want[n++] = 4; }
  else { want[n++] = 5; want[n++] = 6; want[n++] = 8; if (C) want[n++] = 10; }
  want[n++] = 9;
  if (A) want[n++] = 20;
  if (A && B) { want[n++] = 21; want[n++] = 22; }
  want[n++] = 99;
  int e = vp_assemble(c, src);
  symx_assert(e == 0, "well-formed nested conditionals are accepted");
  if (e != 0) return;
  int same = 1;
  for (int i = 0; i < n; i++) same &= c->memory.read8(0x100 + i) == want[i];
  symx_assert(same, "nested conditionals assemble exactly the selected branches, untaken branches define nothing");
  symx_assert(c->address == 0x100 + n, "nothing else is assembled");
#elif MODE == 3
  p = vp_append(p, TEXT);
  int e = vp_assemble(c, src);
  symx_assert(e != 0, "a malformed or unterminated conditional is an error");
#endif
}
