// C15 (and the frame for C14): one simulator step from a fully symbolic state.
// SIMCLASS / SIMHDR select the simulator.  Every data member of the derived class is made symbolic
// (register file, flags, PC, SP); memory is a lazy cell model: the first read of an address yields a fresh
// symbolic byte, so opcode and operand bytes are symbolic too.  The step is executed twice from the same
// state (self-composition) to decide determinism.
#define private public
#define protected public
#include SIMHDR
#undef private
#undef protected
#include "symx.h"
#include <string.h>
#include <new>

#define NINIT 48
#define NLOG 48
static uint32_t init_addr[NINIT]; static uint8_t init_val[NINIT]; static int init_n;      // shared initial memory (lazily created)
struct Log { uint32_t addr[NLOG]; uint8_t val[NLOG]; int n; };
static Log logs[2]; static int cur;
static int first_read_done;

uint8_t Memory::read8(uint32_t address)
{
  // this run's own writes first (newest first), then the shared initial content; the engine case-splits on
  // which known cell a symbolic address equals (or none): queries stay simple equalities
  Log &l = logs[cur];
  for (int i = l.n - 1; i >= 0; i--) if (l.addr[i] == address) return l.val[i];
  for (int i = 0; i < init_n; i++) if (init_addr[i] == address) return init_val[i];
  uint8_t fresh = symx_u8("mem");
#ifdef PART
  if (!first_read_done) { symx_assume((fresh >> 4) == PART); }
#endif
#ifdef CONCRETIZE_READS
  // table-driven 8-bit decoders: the engine enumerates the opcode byte(s) (all feasible values, solver-produced)
  // instead of carrying 256-way selections through every table field
  if (first_read_done < CONCRETIZE_READS) fresh = (uint8_t)symx_concretize(fresh);
#endif
  first_read_done++;
  // a step that reads more distinct initial memory cells than the model holds (block-transfer instructions with a
  // long repeat count) is outside the bound: the path ends here and is counted under the cover tag
  if (init_n >= NINIT) { symx_cover("outside-bound:initial-cell-budget"); symx_assume(0); }
  init_addr[init_n] = address; init_val[init_n] = fresh; init_n++;
  return fresh;
}
void Memory::write8(uint32_t address, uint8_t data)
{
  Log &l = logs[cur];
  if (l.n >= NLOG) { symx_cover("outside-bound:write-log-budget"); symx_assume(0); }
  l.addr[l.n] = address; l.val[l.n] = data; l.n++;
}
void Memory::write(uint32_t address, uint8_t data, int line) { write8(address, data); }
int Memory::read_debug(uint32_t address) { return 0; }

static unsigned char state0[sizeof(SIMCLASS)];
extern "C" void harness_main()
{
  Memory *memory = new Memory();
  SIMCLASS *s[2];
  for (int k = 0; k < 2; k++) s[k] = (SIMCLASS *)SIMCLASS::init(memory);
  init_n = 0; first_read_done = 0; logs[0].n = 0; logs[1].n = 0;   // forget what the constructors' reset() read or wrote
  // symbolic state: every byte of the derived class's own data members
  // derived members may be placed in the base class's tail padding: start right after the base's last member
  const size_t base = __builtin_offsetof(Simulate, serial_address) + sizeof(uint32_t), total = sizeof(SIMCLASS);
#ifdef HAVOC_CUSTOM
  HAVOC_CUSTOM(s[0]);
  HAVOC_COPY(s[1], s[0]);
#else
#ifdef SIM_AVR8
  uint8_t *keep_ram[2] = { s[0]->ram, s[1]->ram }; int keep_mask = s[0]->ram_mask, keep_size = s[0]->ram_size;
#endif
  symx_make_symbolic((char *)s[0] + base, total - base, "state");
  // representation invariants of the simulator classes (fields that every instruction keeps inside their range;
  // a state outside them is not reachable by any history, so a failure from there would not be a finding)
#ifdef SIM_AVR8
  s[0]->ram = keep_ram[0]; s[0]->ram_mask = keep_mask; s[0]->ram_size = keep_size;     // heap pointer and its size are not data
  // the private 8 KiB RAM is indexed by X/Y/Z/SP: they are kept below 256 here (bound: the engine case-splits a symbolic store over at most 1024 targets)
  symx_assume(s[0]->reg[27] == 0 && s[0]->reg[29] == 0 && s[0]->reg[31] == 0 && s[0]->sp >= 2 && s[0]->sp < 250);
#endif
#ifdef SIM_1802
  symx_assume(s[0]->reg_p <= 15 && s[0]->reg_x <= 15 && s[0]->reg_n <= 15 && s[0]->reg_i <= 15);   // 4-bit register selectors
#endif
#ifdef SIM_8008
  symx_assume(s[0]->sp <= 7);                                                          // 3-bit stack index (push/pop mask it)
#endif
#ifdef SIM_TMS1000
  symx_assume(s[0]->reg_x <= 3 && s[0]->reg_y <= 15 && s[0]->reg_a <= 15 && s[0]->pc <= 63 && s[0]->pa <= 15 && s[0]->pb <= 15 && s[0]->cl <= 1 && s[0]->s_flag <= 1 && s[0]->sr <= 63);
#endif
  memcpy((char *)s[1] + base, (char *)s[0] + base, total - base);
#ifdef SIM_AVR8
  s[1]->ram = keep_ram[1];
  memcpy(s[1]->ram, s[0]->ram, 64);
#endif
#endif
  uint32_t bio = symx_u32("break_io");
  s[0]->break_io = bio; s[1]->break_io = bio;
#ifndef SHOW
  s[0]->show = false; s[1]->show = false;     // display off: the display reads ahead in memory and disassembles 12 instructions
#endif
  int r[2];
  for (cur = 0; cur < 2; cur++)
  {
    Simulate::stop_running = false;          // the static stop flag is part of the starting state
    r[cur] = s[cur]->run(-1, 1);
    symx_assert(r[cur] == 0 || r[cur] == -1 || r[cur] == -2, "a step returns executed (0), illegal instruction (-1) or break (-2)");
  }
  symx_note("ret", (uint32_t)r[0]);
  // determinism: same result, same register state, same memory effects
  symx_assert(r[0] == r[1], "repeating the step from the same state gives the same return value");
#ifdef HAVOC_CUSTOM
  symx_assert(STATE_EQUAL(s[0], s[1]), "repeating the step from the same state gives the same register state");
#else
#ifdef SIM_AVR8
  s[1]->ram = s[0]->ram;      // compare everything except the two heap pointers themselves
#endif
  symx_assert(symx_mem_equal((char *)s[0] + base, (char *)s[1] + base, total - base), "repeating the step from the same state gives the same register state");
#endif
  symx_assert(logs[0].n == logs[1].n, "repeating the step performs the same number of memory writes");
  if (logs[0].n == logs[1].n)
  {
    int same = 1;
    for (int i = 0; i < logs[0].n; i++) same &= (logs[0].addr[i] == logs[1].addr[i]) & (logs[0].val[i] == logs[1].val[i]);
    symx_assert(same, "repeating the step writes the same bytes to the same addresses");
  }
  symx_cover(r[0] == 0 ? "executed" : "illegal");
}
