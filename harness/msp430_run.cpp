// C14 (second half): naken_util -run semantics on the real SimulateMsp430: a routine assembled by the real assembler
// (operand values symbolic) is run with auto_run until its final ret; registers and cycle count are compared with
// the architecture; with -break_io a write to the port ends the run with the written value as exit status.
#define private public
#define protected public
#include "simulate/msp430.h"
#undef private
#undef protected
#include "asmlib.h"
static char src[600];
static uint32_t expect_status; static int exit_seen;
static void on_exit_hook(int status)
{
  exit_seen = 1;
  symx_assert((uint32_t)status == expect_status, "a write to the -break_io address ends the run with the written value as exit status");
  symx_cover("break-io-exit");
}
static int is_cg(uint16_t v) { return v == 0 || v == 1 || v == 2 || v == 4 || v == 8 || v == 0xffff; }
extern "C" void harness_main()
{
  AsmContext *c = new AsmContext();
  uint16_t A = symx_u16("A"), B = symx_u16("B");
  uint8_t V = symx_u8("V");
  char a[8], b[8], v[8]; sprintf(a, "%u", A); sprintf(b, "%u", B); sprintf(v, "%u", V);
  char *p = src;
  p = vp_append(p, ".msp430\n.org 0xf000\nstart:\n  mov.w #"); p = vp_append(p, a); p = vp_append(p, ", r15\n  add.w #"); p = vp_append(p, b);
  p = vp_append(p, ", r15\n  call #sub\n");
#ifdef BREAK_IO
  p = vp_append(p, "  mov.b #"); p = vp_append(p, v); p = vp_append(p, ", &0x0200\n");
#endif
  p = vp_append(p, "  ret\nsub:\n  add.w #1, r14\n  ret\n.org 0xfffe\n.dw start\n");
  symx_assume(vp_assemble(c, src) == 0);
  SimulateMsp430 *s = (SimulateMsp430 *)SimulateMsp430::init(&c->memory);
  s->reset();
  s->set_delay(1);
  s->show = false;
  s->enable_auto_run();
#ifdef BREAK_IO
  s->set_break_io(0x0200);
  expect_status = V;
  symx_on_exit(on_exit_hook);
#else
  s->set_break_io(-1);
#endif
  symx_assert(s->reg[0] == 0xf000, "reset loads PC from the reset vector");
  int ret = s->run(-1, 0);
#ifdef BREAK_IO
  symx_assert(exit_seen, "the run ends at the write to the break_io port");
#else
  symx_assert(ret == 0, "-run returns when the routine's final ret executes");
  symx_assert(s->reg[15] == (uint16_t)(A + B), "register values after the run are those of the executed program");
  symx_assert(s->reg[14] == 1, "the called subroutine ran exactly once");
  symx_assert(s->reg[1] == 0x802, "the final ret popped the (empty) stack once");
  // cycles (SLAU144 tables 3-15/3-16): #N,Rm 2 (1 with the constant generator); CALL #N 5; ADD #1,Rn 1; RET (MOV @SP+,PC) 3
  int cycles = (is_cg(A) ? 1 : 2) + (is_cg(B) ? 1 : 2) + 5 + 1 + 3 + 3;
  symx_note("cycles", s->cycle_count); symx_note("expected_cycles", cycles);
#ifdef CHECK_CYCLES
  symx_assert(s->cycle_count == cycles, "the reported cycle count is that of the executed instructions");
#endif
  symx_cover("ran");
#endif
}
