// C14: one step of SimulateMsp430 vs. an independent reference step written from the MSP430x1xx/2xx
// family user's guide (SLAU144/SLAU049, chapter 3: addressing modes 3.3, instruction set 3.4).
// State: 16 symbolic registers, lazy symbolic memory (opcode and extension words symbolic).
#define private public
#define protected public
#include "simulate/msp430.h"
#undef private
#undef protected
#include "symx.h"
#include <string.h>
#include <stdio.h>

#define NINIT 40
#define NLOG 16
static uint32_t init_addr[NINIT]; static uint8_t init_val[NINIT]; static int init_n;
struct Log { uint32_t addr[NLOG]; uint8_t val[NLOG]; int n; };
static Log logs[2]; static int cur;            // 0: simulator, 1: reference model
static int nreads;

uint8_t Memory::read8(uint32_t address)
{
  Log &l = logs[cur];
  for (int i = l.n - 1; i >= 0; i--) if (l.addr[i] == address) return l.val[i];
  for (int i = 0; i < init_n; i++) if (init_addr[i] == address) return init_val[i];
  uint8_t fresh = symx_u8("mem");
#ifdef PART
  if (nreads == 1) symx_assume((fresh >> 4) == PART);       // second byte read = high byte of the opcode word
#endif
#ifdef PART2
  if (nreads == 0) symx_assume(((fresh >> 4) & 3) == PART2); // As field
#endif
  nreads++;
  symx_assert(init_n < NINIT, "harness: initial-memory cell budget");
  if (init_n < NINIT) { init_addr[init_n] = address; init_val[init_n] = fresh; init_n++; }
  return fresh;
}
void Memory::write8(uint32_t address, uint8_t data)
{
  Log &l = logs[cur];
  symx_assert(l.n < NLOG, "harness: write log budget");
  if (l.n < NLOG) { l.addr[l.n] = address; l.val[l.n] = data; l.n++; }
}
void Memory::write(uint32_t address, uint8_t data, int line) { write8(address, data); }
int Memory::read_debug(uint32_t address) { return 0; }

// ------------------------------------------------------------------ reference model
static Memory *M;
static uint16_t R[16];
static int excluded;          // set when the instruction is outside the claim (stated in the evidence)
enum { F_C = 1, F_Z = 2, F_N = 4, F_V = 0x100 };
static uint8_t rd8(uint16_t a) { return M->read8(a); }
static uint16_t rd16(uint16_t a) { if (a & 1) excluded = __LINE__; uint8_t lo = M->read8(a); uint8_t hi = M->read8((uint16_t)(a + 1)); return (uint16_t)(lo | (hi << 8)); }
static void wr8(uint16_t a, uint8_t v) { M->write8(a, v); }
static void wr16(uint16_t a, uint16_t v) { if (a & 1) excluded = __LINE__; M->write8(a, v & 0xff); M->write8((uint16_t)(a + 1), v >> 8); }
static void setf(int f, int on) { if (on) R[2] |= f; else R[2] &= ~f; }

struct Loc { int kind; int reg; uint16_t addr; };   // kind 0: none (constant), 1: register, 2: memory
static uint16_t fetch(int reg, int As, int bw, Loc *loc)
{
  loc->kind = 0; loc->reg = reg; loc->addr = 0;
  if (reg == 3) { static const uint16_t k[4] = { 0, 1, 2, 0xffff }; return bw ? (k[As] & 0xff) : k[As]; }
  if (reg == 2 && As == 2) return 4;
  if (reg == 2 && As == 3) return 8;
  if (As == 0) { loc->kind = 1; return bw ? (R[reg] & 0xff) : R[reg]; }
  if (As == 1)
  {
    uint16_t extaddr = R[0]; uint16_t x = rd16(extaddr); R[0] += 2;
    uint16_t base = reg == 2 ? 0 : reg == 0 ? extaddr : R[reg];
    loc->kind = 2; loc->addr = (uint16_t)(base + x);
    return bw ? rd8(loc->addr) : rd16(loc->addr);
  }
  // @Rn, @Rn+
  loc->kind = 2; loc->addr = R[reg];
  uint16_t v = bw ? rd8(loc->addr) : rd16(loc->addr);
  if (As == 3) R[reg] += (bw && reg != 0 && reg != 1) ? 1 : 2;
  if (As == 3 && reg == 0) loc->kind = 0;          // immediate
  return v;
}
static void store(Loc *loc, int bw, uint16_t v)
{
  if (loc->kind == 1) R[loc->reg] = bw ? (v & 0xff) : v;
  else if (loc->kind == 2) { if (bw) wr8(loc->addr, (uint8_t)v); else wr16(loc->addr, v); }
}
static int ref_step()
{
  uint16_t pc = R[0];
  uint16_t op = rd16(pc);
  R[0] = pc + 2;
  if ((op & 0xe000) == 0x2000)
  {
    int cond = (op >> 10) & 7; int off = op & 0x3ff; if (off & 0x200) off -= 0x400;
    int c = R[2] & F_C ? 1 : 0, z = R[2] & F_Z ? 1 : 0, n = R[2] & F_N ? 1 : 0, v = R[2] & F_V ? 1 : 0;
    int take = cond == 0 ? !z : cond == 1 ? z : cond == 2 ? !c : cond == 3 ? c : cond == 4 ? n : cond == 5 ? !(n ^ v) : cond == 6 ? (n ^ v) : 1;
    if (take) R[0] = (uint16_t)(R[0] + 2 * off);
    return 0;
  }
  if ((op & 0xfc00) == 0x1000)
  {
    int o = (op >> 7) & 7, bw = (op >> 6) & 1, As = (op >> 4) & 3, reg = op & 15;
    if (o == 7) return -1;
    if (o == 6)
    {
      if ((op & 0x7f) != 0) { excluded = __LINE__; return 0; }          // only 0x1300 is RETI
      R[2] = rd16(R[1]); R[1] += 2; R[0] = rd16(R[1]); R[1] += 2; return 0;
    }
    if ((o == 1 || o == 3 || o == 5) && bw) { excluded = __LINE__; return 0; }   // SWPB/SXT/CALL have no byte form
    Loc loc;
    if (o == 4)
    {
      // PUSH: SP - 2 -> SP, src -> @SP   (PUSH SP / @SP+ forms are excluded: family-dependent)
      if (reg == 1) { excluded = __LINE__; return 0; }
      if (bw) { excluded = __LINE__; return 0; }        // PUSH.B: the upper byte of the stack word is not specified
      uint16_t v = fetch(reg, As, bw, &loc);
      R[1] -= 2;
      if (bw) wr8(R[1], (uint8_t)v); else wr16(R[1], v);
      return 0;
    }
    if (o == 5)
    {
      if (reg == 1) { excluded = __LINE__; return 0; }
      uint16_t v = fetch(reg, As, 0, &loc);
      R[1] -= 2; wr16(R[1], R[0]); R[0] = v;
      return 0;
    }
    uint16_t v = fetch(reg, As, bw, &loc);
    if (loc.kind == 0) { excluded = __LINE__; return 0; }                // constants / immediates as destination
    if (loc.kind == 1 && (reg == 0 || reg == 2)) { excluded = __LINE__; return 0; }   // PC / SR as read-modify-write operand
    uint16_t msb = bw ? 0x80 : 0x8000, mask = bw ? 0xff : 0xffff, r;
    if (o == 0) { int cin = R[2] & F_C ? 1 : 0; setf(F_C, v & 1); r = (uint16_t)(((v & mask) >> 1) | (cin ? msb : 0)); setf(F_N, r & msb); setf(F_Z, (r & mask) == 0); setf(F_V, 0); }
    else if (o == 1) { r = (uint16_t)((v << 8) | (v >> 8)); }
    else if (o == 2) { setf(F_C, v & 1); r = (uint16_t)(((v & mask) >> 1) | (v & msb)); setf(F_N, r & msb); setf(F_Z, (r & mask) == 0); setf(F_V, 0); }
    else { r = (v & 0x80) ? (uint16_t)(v | 0xff00) : (uint16_t)(v & 0xff); setf(F_N, r & 0x8000); setf(F_Z, r == 0); setf(F_C, r != 0); setf(F_V, 0); }
    store(&loc, bw, r);
    return 0;
  }
  int o = op >> 12;
  if (o < 4) return -1;
  int sreg = (op >> 8) & 15, Ad = (op >> 7) & 1, bw = (op >> 6) & 1, As = (op >> 4) & 3, dreg = op & 15;
  Loc sl, dl;
  uint16_t s = fetch(sreg, As, bw, &sl);
  // destination
  if (Ad == 0) { dl.kind = 1; dl.reg = dreg; dl.addr = 0; }
  else
  {
    uint16_t extaddr = R[0]; uint16_t x = rd16(extaddr); R[0] += 2;
    uint16_t base = dreg == 2 ? 0 : dreg == 0 ? extaddr : R[dreg];
    dl.kind = 2; dl.reg = dreg; dl.addr = (uint16_t)(base + x);
  }
  if (dreg == 3) { excluded = __LINE__; return 0; }                                   // the constant generator as destination / destination index
  if (Ad == 0 && dreg == 2 && o != 4 && o != 12 && o != 13) { excluded = __LINE__; return 0; }   // SR as destination of a flag-setting instruction
  if (Ad == 0 && dreg == 0 && bw) { excluded = __LINE__; return 0; }                  // byte write to PC
  uint16_t mask = bw ? 0xff : 0xffff, msb = bw ? 0x80 : 0x8000;
  uint16_t d = 0;
  if (o != 4) d = dl.kind == 1 ? (uint16_t)(R[dreg] & mask) : (bw ? rd8(dl.addr) : rd16(dl.addr));
  s &= mask;
  uint32_t wide; uint16_t r = 0; int write = 1;
  switch (o)
  {
    case 4: r = s; break;
    case 5: case 6:
      wide = (uint32_t)d + s + ((o == 6 && (R[2] & F_C)) ? 1 : 0); r = wide & mask;
      setf(F_C, wide > mask); setf(F_V, (~(d ^ s) & (d ^ r) & msb) != 0); setf(F_N, r & msb); setf(F_Z, r == 0); break;
    case 7: case 8: case 9:
      wide = (uint32_t)d + (uint16_t)(~s & mask) + ((o == 7) ? ((R[2] & F_C) ? 1 : 0) : 1); r = wide & mask;
      setf(F_C, wide > mask); setf(F_V, ((d ^ s) & (d ^ r) & msb) != 0); setf(F_N, r & msb); setf(F_Z, r == 0);
      if (o == 9) write = 0;
      break;
    case 10:
    {
      int carry = (R[2] & F_C) ? 1 : 0; uint16_t res = 0; int digits = bw ? 2 : 4;
      for (int i = 0; i < digits; i++)
      {
        int a = ((d >> (4 * i)) & 15) + ((s >> (4 * i)) & 15) + carry;
        if (((d >> (4 * i)) & 15) > 9 || ((s >> (4 * i)) & 15) > 9) excluded = __LINE__;    // non-BCD operands: result undefined
        if (a >= 10) { a -= 10; carry = 1; } else carry = 0;
        res |= (uint16_t)(a << (4 * i));
      }
      r = res; setf(F_C, carry); setf(F_N, r & msb); setf(F_Z, r == 0);
      break;
    }
    case 11: r = d & s; setf(F_N, r & msb); setf(F_Z, r == 0); setf(F_C, r != 0); setf(F_V, 0); write = 0; break;
    case 12: r = d & ~s; break;
    case 13: r = d | s; break;
    case 14: r = d ^ s; setf(F_N, r & msb); setf(F_Z, r == 0); setf(F_C, r != 0); setf(F_V, (d & s & msb) != 0); break;
    case 15: r = d & s; setf(F_N, r & msb); setf(F_Z, r == 0); setf(F_C, r != 0); setf(F_V, 0); break;
  }
  if (write) store(&dl, bw, r);
  return 0;
}

extern "C" void harness_main()
{
  M = new Memory();
  SimulateMsp430 *s = (SimulateMsp430 *)SimulateMsp430::init(M);
  init_n = 0; nreads = 0; logs[0].n = 0; logs[1].n = 0;      // forget what the constructor's reset() read (reset vector)
  for (int i = 0; i < 16; i++) { R[i] = symx_u16("r"); s->reg[i] = R[i]; }
  symx_assume((R[0] & 1) == 0 && (R[1] & 1) == 0);          // PC and SP are word aligned
  symx_assume(R[3] == 0);                                   // R3 reads as the constant generator
  s->break_io = 0xffffffff; s->show = false;   // no register/disassembly display (it reads ahead in memory)
  cur = 0;
  int ret = s->run(-1, 1);
  cur = 1; excluded = 0;
  int want = ref_step();
  symx_note("opcode", (uint32_t)(init_val[0] | (init_val[1] << 8)));
  if (excluded) { symx_note("excluded_at_line", excluded); symx_cover("outside-claim"); return; }
  symx_cover(want == 0 ? "legal" : "illegal");
  symx_assert((ret == -1) == (want == -1), "same legal / illegal-instruction classification as the architecture");
  if (want != 0 || ret != 0) return;
  int op = init_val[1] >> 4;
  static char tag[64];
  {
    uint16_t w = (uint16_t)(init_val[0] | (init_val[1] << 8));
    int f_op = (int)symx_concretize(w >> 12), f_as = (int)symx_concretize((w >> 4) & 3), f_bw = (int)symx_concretize((w >> 6) & 1), f_ad = (int)symx_concretize((w >> 7) & 1);
    int f_o2 = (int)symx_concretize((w >> 7) & 7);
    if (f_op == 1) sprintf(tag, " [format II op=%d As=%d bw=%d]", f_o2, f_as, f_bw);
    else if (f_op < 4) sprintf(tag, " [jump]");
    else sprintf(tag, " [format I op=%x As=%d Ad=%d bw=%d]", f_op, f_as, f_ad, f_bw);
  }
#define TAGGED(m) (strcpy(msgbuf, m), strcat(msgbuf, tag), msgbuf)
  static char msgbuf[160];
  for (int i = 0; i < 16; i++)
  {
    if (i == 2) continue;
    if (i == 3) continue;
    symx_assert(s->reg[i] == R[i], TAGGED(i == 0 ? "program counter after the step is the architecture's" : i == 1 ? "stack pointer after the step is the architecture's" : "general register after the step is the architecture's"));
  }
  uint16_t fm = F_C | F_Z | F_N | F_V;
  if (op == 10) fm &= ~F_V;                                  // DADD leaves V undefined
  symx_assert((s->reg[2] & fm) == (R[2] & fm), TAGGED("status flags C, Z, N, V after the step are the architecture's"));
  symx_assert((s->reg[2] & ~(F_C | F_Z | F_N | F_V)) == (R[2] & ~(F_C | F_Z | F_N | F_V)), "other status register bits after the step are the architecture's");
  // memory effects: every address either side wrote must read the same on both sides
  for (int k = 0; k < 2; k++)
    for (int i = 0; i < logs[k].n; i++)
    {
      uint32_t a = logs[k].addr[i];
      cur = 0; uint8_t v0 = M->read8(a);
      cur = 1; uint8_t v1 = M->read8(a);
      symx_assert(v0 == v1, TAGGED("memory after the step is the architecture's"));
    }
}
