// C13: the output is a function of the source alone: the real main() is run twice in one process on the same
// (symbolically corrupted) source with different reporting options / output names; status and output must agree.
#include "symx.h"
#include <string.h>
#include <stdio.h>
extern int naken_asm_main(int argc, char *argv[]);
#ifndef PROGRAM
#define PROGRAM ".msp430\n.org 0x100\nstart:\n  mov.w #5, r4\n  .db 1, 2\n  jmp start\n"
#endif
static char prog[512];
static char f1[8192], f2[8192];
static void on_exit_hook(int status) { symx_cover("exit-called"); }
static int run(const char *const *opts, int nopts, const char *outname)
{
  static char a0[] = "naken_asm", a1[] = "-o", src[] = "in.asm";
  char *argv[16]; int argc = 0;
  argv[argc++] = a0; argv[argc++] = a1; argv[argc++] = (char *)outname;
  for (int i = 0; i < nopts; i++) argv[argc++] = (char *)opts[i];
  argv[argc++] = src; argv[argc] = 0;
  return naken_asm_main(argc, argv);
}
extern "C" void harness_main()
{
  strcpy(prog, PROGRAM);
  int len = strlen(prog);
#ifndef NO_CORRUPTION
  int pos = symx_fork("pos", len);
  uint8_t ch = symx_u8("ch");
  symx_assume(ch == 'x' || ch == '7' || ch == ' ' || ch == '\n' || ch == '#' || ch == ',' || ch == '.' || ch == ':' || ch == '"' || ch == '(' || ch == ';' || ch == '$' || ch == '/' || ch == '*');
  symx_assume(ch != (uint8_t)prog[pos]);
  prog[pos] = (char)ch;
  symx_note("pos", pos);
#endif
  symx_file_put("in.asm", prog, len);
  symx_on_exit(on_exit_hook);
  static const char *o1[] = { OPTS1 };
  static const char *o2[] = { OPTS2 };
  int s1 = run(o1, sizeof(o1) / sizeof(o1[0]), "first.out");
  int s2 = run(o2, sizeof(o2) / sizeof(o2[0]), "second_name.out");
  symx_note("s1", s1); symx_note("s2", s2);
  symx_assert(s1 == s2, "exit status does not depend on reporting options, output name or an earlier assembly in the same process");
  if (s1 != 0 || s2 != 0) { symx_cover("failed"); return; }
  long n1 = symx_file_get("first.out", f1, sizeof(f1)), n2 = symx_file_get("second_name.out", f2, sizeof(f2));
  symx_assert(n1 > 0 && n1 == n2, "both runs write an output of the same size");
  if (n1 > 0 && n1 == n2) symx_assert(symx_mem_equal(f1, f2, n1), "both runs write byte-identical output");
  symx_cover("compared");
}
