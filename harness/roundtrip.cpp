// C07 / C01: bytes -> disasm -> asm -> disasm -> asm
// Parameters: CPU (directive text), DISASM_FN, DISASM_HDR, NBYTES, BASE (decimal), MINLEN, MAXLEN, FLAGS, ENDIAN
#include "asmlib.h"
#include DISASM_HDR
#ifndef FLAGS
#define FLAGS 0
#endif
#ifndef ENDIAN
#define ENDIAN 0
#endif
#ifndef NORMBITS
#define NORMBITS 32
#endif
#define STR2(x) #x
#define STR(x) STR2(x)
static char src[400], src2[400];
// "same instruction after numeric normalisation": texts are compared character by character, except that
// a run of digits (decimal, or hex after 0x) is compared by value (so #0 and #0x0000 are the same operand)
static int hexval(unsigned char c) { return (c & 0xf) + ((c >> 6) * 9); }
static int is_dec(unsigned char c) { return c >= '0' && c <= '9'; }
static int is_hex(unsigned char c) { return (c >= '0' && c <= '9') || (c >= 'a' && c <= 'f') || (c >= 'A' && c <= 'F'); }
static uint64_t parse_num(const char *t, int *i)
{
  uint64_t v = 0;
  if (t[*i] == '0' && (t[*i + 1] == 'x' || t[*i + 1] == 'X') && is_hex((unsigned char)t[*i + 2]))
  {
    *i += 2;
    while (is_hex((unsigned char)t[*i])) { v = v * 16 + (uint64_t)hexval((unsigned char)t[*i]); (*i)++; }
    return v;
  }
  while (is_dec((unsigned char)t[*i])) { v = v * 10 + (uint64_t)(t[*i] - '0'); (*i)++; }
  return v;
}
static int same_instruction(const char *a, const char *b)
{
  int i = 0, j = 0; int ok = 1;
  while (a[i] != 0 && b[j] != 0)
  {
    int pa = i > 0 && (is_hex((unsigned char)a[i - 1]) || (a[i - 1] >= 'g' && a[i - 1] <= 'z') || (a[i - 1] >= 'G' && a[i - 1] <= 'Z') || a[i - 1] == '_');
    int na = a[i] == '-' && is_dec((unsigned char)a[i + 1]), nb = b[j] == '-' && is_dec((unsigned char)b[j + 1]);
    if ((is_dec((unsigned char)a[i]) || na) && (is_dec((unsigned char)b[j]) || nb) && !pa)
    {
      // values are compared modulo 2^NORMBITS (the CPU's operand width): -1 and 0xffff spell the same 16-bit operand
      if (na) i++; if (nb) j++;
      uint64_t va = parse_num(a, &i), vb = parse_num(b, &j);
      if (na) va = 0 - va; if (nb) vb = 0 - vb;
      ok &= (((va - vb) & ((NORMBITS >= 64) ? ~0ULL : ((1ULL << NORMBITS) - 1))) == 0);
      continue;
    }
    ok &= (a[i] == b[j]);
    i++; j++;
  }
  ok &= (a[i] == 0 && b[j] == 0);
  return ok;
}
static void make_source(char *out, const char *text)
{
  char *p = out;
  p = vp_append(p, "." CPU "\n.org " STR(ORG) "\n");
  p = vp_append(p, text);
  p = vp_append(p, "\n");
}
// MSP430 prints emulated instructions as "alias   --  real instruction": the alias is an annotation, the
// instruction is what follows the separator
static void strip_alias(char *t)
{
  for (int i = 0; symx_is_symbolic((uint8_t)t[i]) || t[i] != 0; i++)
    if (!symx_is_symbolic((uint8_t)t[i]) && t[i] == ' ' && !symx_is_symbolic((uint8_t)t[i + 1]) && t[i + 1] == ' ' && !symx_is_symbolic((uint8_t)t[i + 2]) && t[i + 2] == '-' &&
        !symx_is_symbolic((uint8_t)t[i + 3]) && t[i + 3] == '-' && t[i + 4] == ' ' && t[i + 5] == ' ')
    {
      int k = i + 6; int j = 0;
      while (t[k] != 0) t[j++] = t[k++];
      t[j] = 0;
      return;
    }
}
extern "C" void harness_main()
{
  Memory memory; memory.endian = ENDIAN;
  uint8_t b[NBYTES];
  for (int i = 0; i < NBYTES; i++) b[i] = symx_u8("b");
#ifdef PART_MASK
  symx_assume((b[PART_BYTE] & PART_MASK) == PART_VAL);   // partition of the opcode space handled by this job
#ifdef PART2_MASK
  symx_assume((b[PART2_BYTE] & PART2_MASK) == PART2_VAL);
#endif
#ifdef NARROW_EXT
  // breadth jobs: the bytes after the first unit are symbolic in 0..NARROW_EXT (low byte of each unit) / 0 (other
  // bytes), so that every printed number has decimal-looking digits only and the tokenizer does not fork on digit
  // classes: one path per instruction form, the solver still decides all values of the narrow range
  for (int i = NARROW_FROM; i < NBYTES; i++) symx_assume(((i - NARROW_FROM) % NARROW_UNIT) == NARROW_LOW ? b[i] <= NARROW_EXT : b[i] == 0);
#endif
#elif defined(PART_BYTE)
  symx_assume((b[PART_BYTE] >> 4) == PART);      // partition of the opcode space handled by this job
#endif
  for (int i = 0; i < NBYTES; i++) memory.write8(BASE + i, b[i]);
  char text[128]; int cmin = 0, cmax = 0;
  int n = DISASM_FN(&memory, BASE, text, sizeof(text), FLAGS, &cmin, &cmax);
  if (n < MINLEN || n > MAXLEN) return;              // C08's subject
#ifdef STRIP_ANNOT
  // the decoder appends an annotation such as " (2048)" or "  (offset: 10)" to branch targets; it is not part of the instruction text
  { int L = (int)strlen(text); if (L > 3 && text[L - 1] == ')') { int k = L - 2; while (k > 0 && !(text[k] == '(' && text[k - 1] == ' ')) k--; if (k > 0) { k--; while (k > 0 && text[k - 1] == ' ') k--; text[k] = 0; } } }
  strip_alias(text);
#endif
  symx_note_str("T", text);
  symx_note("len", n);
  // tag the assertion messages with the mnemonic so that findings are reported per instruction
  static char tag[40], m1[200], m2[200], m3[200], m4[200], m5[200];
  { int k = 0; tag[k++] = ' '; tag[k++] = '['; for (int i = 0; text[i] != 0 && text[i] != ' ' && k < 30; i++) { if (symx_is_symbolic((uint8_t)text[i])) break; tag[k++] = text[i]; } tag[k++] = ']'; tag[k] = 0; }
#define TAGGED(buf, m) (strcpy(buf, m), strcat(buf, tag), buf)
  make_source(src, text);
  AsmContext *c1 = new AsmContext();
  int e1 = vp_assemble(c1, src);
  symx_note("accepted", e1 == 0);
  if (e1 != 0) { symx_cover("rejected"); return; }  // the assembler does not accept the rendering: no claim
  symx_cover("accepted");
  int n2 = c1->address - BASE;
  symx_note("asm_len", n2);
  // C07: what the assembler produced for the rendering decodes to the same instruction
  char text2[128];
  c1->memory.endian = ENDIAN;
  int d2 = DISASM_FN(&c1->memory, BASE, text2, sizeof(text2), FLAGS, &cmin, &cmax);
#ifdef STRIP_ANNOT
  { int L = (int)strlen(text2); if (L > 3 && text2[L - 1] == ')') { int k = L - 2; while (k > 0 && !(text2[k] == '(' && text2[k - 1] == ' ')) k--; if (k > 0) { k--; while (k > 0 && text2[k - 1] == ' ') k--; text2[k] = 0; } } }
  strip_alias(text2);
#endif
  symx_note_str("T2", text2);
  symx_assert(same_instruction(text, text2), TAGGED(m1, "C07: re-assembled bytes disassemble to the same instruction (numbers compared by value)"));
  // C01: walking the disassembler over the emitted bytes consumes exactly the bytes emitted
  symx_assert(d2 == n2, TAGGED(m2, "C01: disassembler consumes exactly the bytes the assembler emitted"));
  // C01: encode -> decode -> encode is a fixpoint (c1's bytes are assembler output)
  make_source(src2, text2);
  AsmContext *c2 = new AsmContext();
  int e2 = vp_assemble(c2, src2);
  if (e2 != 0) { symx_cover("second-rejected"); return; }
  int n3 = c2->address - BASE;
  symx_assert(n3 == n2, TAGGED(m3, "C01: re-assembling the disassembly yields the same length"));
  if (n3 == n2)
  {
    int same = 1;
    for (int i = 0; i < n2 && i < 16; i++) same &= (c2->memory.read8(BASE + i) == c1->memory.read8(BASE + i));
    symx_assert(same, TAGGED(m4, "C01: re-assembling the disassembly yields the same bytes"));
  }
}
