// C07 / C01: bytes -> disasm -> asm -> disasm -> asm
// Parameters: CPU (directive text), DISASM_FN, DISASM_HDR, NBYTES, BASE (decimal), MINLEN, MAXLEN, FLAGS, ENDIAN
#include "asmlib.h"
#include DISASM_HDR
#ifndef FLAGS
#define FLAGS 0
#endif
#ifndef ENDIAN
#define ENDIAN 0
#endif
#define STR2(x) #x
#define STR(x) STR2(x)
static char src[400], src2[400];
static void make_source(char *out, const char *text)
{
  char *p = out;
  p = vp_append(p, "." CPU "\n.org " STR(ORG) "\n");
  p = vp_append(p, text);
  p = vp_append(p, "\n");
}
extern "C" void harness_main()
{
  Memory memory; memory.endian = ENDIAN;
  uint8_t b[NBYTES];
  for (int i = 0; i < NBYTES; i++) b[i] = symx_u8("b");
#ifdef PART_BYTE
  symx_assume((b[PART_BYTE] >> 4) == PART);      // partition of the opcode space handled by this job
#endif
  for (int i = 0; i < NBYTES; i++) memory.write8(BASE + i, b[i]);
  char text[128]; int cmin = 0, cmax = 0;
  int n = DISASM_FN(&memory, BASE, text, sizeof(text), FLAGS, &cmin, &cmax);
  if (n < MINLEN || n > MAXLEN) return;              // C08's subject
  symx_note_str("T", text);
  symx_note("len", n);
  make_source(src, text);
  AsmContext *c1 = new AsmContext();
  int e1 = vp_assemble(c1, src);
  symx_note("accepted", e1 == 0);
  if (e1 != 0) { symx_cover("rejected"); return; }  // the assembler does not accept the rendering: no claim
  symx_cover("accepted");
  int n2 = c1->address - BASE;
  symx_note("asm_len", n2);
  // C07: what the assembler produced for the rendering decodes to the same instruction
  char text2[128];
  c1->memory.endian = ENDIAN;
  int d2 = DISASM_FN(&c1->memory, BASE, text2, sizeof(text2), FLAGS, &cmin, &cmax);
  symx_note_str("T2", text2);
  symx_assert(strcmp(text, text2) == 0, "C07: re-assembled bytes disassemble to the same instruction text");
  // C01: walking the disassembler over the emitted bytes consumes exactly the bytes emitted
  symx_assert(d2 == n2, "C01: disassembler consumes exactly the bytes the assembler emitted");
  // C01: encode -> decode -> encode is a fixpoint (c1's bytes are assembler output)
  make_source(src2, text2);
  AsmContext *c2 = new AsmContext();
  int e2 = vp_assemble(c2, src2);
  if (e2 != 0) { symx_cover("second-rejected"); return; }
  int n3 = c2->address - BASE;
  symx_assert(n3 == n2, "C01: re-assembling the disassembly yields the same length");
  if (n3 == n2)
  {
    int same = 1;
    for (int i = 0; i < n2 && i < 16; i++) same &= (c2->memory.read8(BASE + i) == c1->memory.read8(BASE + i));
    symx_assert(same, "C01: re-assembling the disassembly yields the same bytes");
  }
}
