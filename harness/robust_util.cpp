// C17: the object-file readers on well-formed skeleton files with symbolic fields.
// FORMAT: 1 hex, 2 srec, 3 ti_txt, 4 wdc, 5 uf2, 6 bin, 7 elf, 8 macho, 9 amiga
// Text formats: NSYM characters of a valid record are arbitrary symbolic bytes.
// Binary formats: the header words listed per format are symbolic 32-bit values.
// ELF/Mach-O/Amiga skeletons are produced by the repository's own writers, then header fields are overwritten.
#include "symx.h"
#include <string.h>
#include <stdio.h>
#include "core/Memory.h"
#include "core/Symbols.h"
#include "fileio/read_hex.h"
#include "fileio/read_srec.h"
#include "fileio/read_ti_txt.h"
#include "fileio/read_wdc.h"
#include "fileio/read_uf2.h"
#include "fileio/read_bin.h"
#include "fileio/read_elf.h"
#include "fileio/read_macho.h"
#include "fileio/read_amiga.h"
#include "fileio/write_elf.h"
#include "fileio/write_macho.h"
#include "fileio/write_amiga.h"
#include "core/cpu_list.h"

// Memory sink: the image itself is not the subject here (C03/C05/C19), only how often it is written
static unsigned long nwrites;
static uint8_t skel_mem[64]; static int building;
void Memory::write8(uint32_t address, uint8_t data) { nwrites++; if (building && address < 64) skel_mem[address] = data; }
void Memory::write(uint32_t address, uint8_t data, int line) { nwrites++; if (building && address < 64) skel_mem[address] = data; if (building) { if (address < low_address) low_address = address; if (address > high_address) high_address = address; } }
uint8_t Memory::read8(uint32_t address) { return address < 64 ? skel_mem[address] : 0; }
int Memory::read_debug(uint32_t address) { return (building && address >= low_address && address <= high_address) ? DL_DATA : DL_EMPTY; }
void Memory::clear() { }

static uint8_t file[8192]; static long flen;
static void sym_at(long pos, const char *name) { if (pos < flen) file[pos] = symx_u8(name); }
static void sym32_at(long pos, const char *name) { uint32_t v = symx_u32(name); for (int i = 0; i < 4; i++) if (pos + i < flen) file[pos + i] = (uint8_t)(v >> (8 * i)); }
static void sym16_at(long pos, const char *name) { uint16_t v = symx_u16(name); for (int i = 0; i < 2; i++) if (pos + i < flen) file[pos + i] = (uint8_t)(v >> (8 * i)); }

extern "C" void harness_main()
{
  Memory *m = new Memory();
  Symbols *syms = new Symbols();
  uint8_t cpu_type = 0;
  int r = 0;
#if FORMAT == 1
  strcpy((char *)file, ":04001000A1A8AFB6EE\n:00000001FF\n"); flen = strlen((char *)file);
  static const int pos[] = { SYMPOS };
  for (unsigned i = 0; i < sizeof(pos) / sizeof(pos[0]); i++) sym_at(pos[i], "c");
  symx_file_put("f.hex", file, flen);
  r = read_hex("f.hex", m);
#elif FORMAT == 2
  strcpy((char *)file, "S00600004844521B\nS1071000A1A8AFB6EA\nS9030000FC\n"); flen = strlen((char *)file);
  static const int pos[] = { SYMPOS };
  for (unsigned i = 0; i < sizeof(pos) / sizeof(pos[0]); i++) sym_at(pos[i], "c");
  symx_file_put("f.srec", file, flen);
  r = read_srec("f.srec", m);
#elif FORMAT == 3
  strcpy((char *)file, "@1000\nA1 A8 AF B6\n@2000\n01\nq\n"); flen = strlen((char *)file);
  static const int pos[] = { SYMPOS };
  for (unsigned i = 0; i < sizeof(pos) / sizeof(pos[0]); i++) sym_at(pos[i], "c");
  symx_file_put("f.txt", file, flen);
  r = read_ti_txt("f.txt", m);
#elif FORMAT == 4
  { static const uint8_t t[] = { 'Z', 0x00, 0x10, 0x00, 0x03, 0x00, 0x00, 1, 2, 3, 0x00, 0x20, 0x00, 0x01, 0x00, 0x00, 9 }; memcpy(file, t, sizeof(t)); flen = sizeof(t); }
  { static const uint32_t lens[6] = { 0, 1, 3, 4, 100, 0xffffff };
    uint32_t a = symx_u32("addr"), l = lens[symx_fork("len", 6)]; for (int i = 0; i < 3; i++) { file[1 + i] = (uint8_t)(a >> (8 * i)); file[4 + i] = (uint8_t)(l >> (8 * i)); } }
  sym_at(0, "magic");
  symx_file_put("f.wdc", file, flen);
  r = read_wdc("f.wdc", m);
#elif FORMAT == 5
  memset(file, 0, 512); flen = 512;
  { static const uint32_t h[8] = { 0x0a324655, 0x9e5d5157, 0x00002000, 0x10000000, 256, 0, 1, 0xe48bff56 }; for (int i = 0; i < 8; i++) for (int k = 0; k < 4; k++) file[4 * i + k] = (uint8_t)(h[i] >> (8 * k)); uint32_t e = 0x0ab16f30; for (int k = 0; k < 4; k++) file[508 + k] = (uint8_t)(e >> (8 * k)); }
  sym32_at(8, "flags"); sym32_at(12, "address"); sym32_at(16, "byte_count"); sym32_at(20, "block_no"); sym32_at(24, "total_blocks");
  symx_file_put("f.uf2", file, flen);
  r = read_uf2("f.uf2", m);
#elif FORMAT == 6
  for (int i = 0; i < 16; i++) file[i] = symx_u8("b"); flen = 16;
  symx_file_put("f.bin", file, flen);
  r = read_bin("f.bin", m, symx_u32("start"));
#elif FORMAT == 7 || FORMAT == 8 || FORMAT == 9
  // skeleton from the repository's own writer
  building = 1; m->low_address = 0xffffffff; m->high_address = 0;
  for (int i = 0; i < 8; i++) m->write(0x10 + i, 0xa0 + i, 1);
  syms->append("main", 0x10); syms->export_symbol("main");
  FILE *out = fopen("skel", "wb");
#if FORMAT == 7
#ifndef ELFCPU
#define ELFCPU CPU_TYPE_MSP430
#endif
  write_elf(m, out, syms, "t.asm", ELFCPU, 2);
#elif FORMAT == 8
  write_macho(m, out, syms, "t.asm", CPU_TYPE_ARM64, 4);
#else
  write_amiga(m, out);
#endif
  fclose(out);
  building = 0; nwrites = 0;
  flen = symx_file_get("skel", file, sizeof(file));
  symx_assume(flen > 16);
#ifdef SHDR_SECTION
  {
    // offset and size of one section header are symbolic over their full width (32 bit in ELF32, 64 bit in ELF64)
    int is64 = file[4] == 2;
    uint64_t shoff = 0; for (int k = 0; k < (is64 ? 8 : 4); k++) shoff |= (uint64_t)file[(is64 ? 40 : 32) + k] << (8 * k);
    uint32_t shentsize = file[is64 ? 58 : 46] | (file[(is64 ? 58 : 46) + 1] << 8);
    uint32_t shnum = file[is64 ? 60 : 48] | (file[(is64 ? 60 : 48) + 1] << 8);
    symx_assume(SHDR_SECTION < shnum);
    long h = (long)(shoff + (uint64_t)SHDR_SECTION * shentsize);
    if (is64) { sym32_at(h + 24, "sh_offset_lo"); sym32_at(h + 28, "sh_offset_hi"); sym32_at(h + 32, "sh_size_lo"); sym32_at(h + 36, "sh_size_hi"); }
    else { sym32_at(h + 16, "sh_offset"); sym32_at(h + 20, "sh_size"); }
  }
#else
  static const int pos[] = { SYMPOS };
  for (unsigned i = 0; i < sizeof(pos) / sizeof(pos[0]); i++) { if (SYMWIDTH == 4) sym32_at(pos[i], "field"); else sym16_at(pos[i], "field"); }
#endif
  symx_file_put("f.obj", file, flen);
  Symbols *s2 = new Symbols();
#if FORMAT == 7
  r = read_elf("f.obj", m, &cpu_type, s2);
#elif FORMAT == 8
  r = read_macho("f.obj", m, &cpu_type, s2);
#else
  r = read_amiga("f.obj", m);
#endif
#endif
  symx_note("ret", (uint32_t)r); symx_note("writes", nwrites);
  // a 16-bit length field can ask for at most 65535 bytes; anything beyond is a loop driven by a wide field past the end of the file
  symx_assert(nwrites <= 70000, "the number of image bytes written is bounded by the file, not by a 24/32-bit length field");
  symx_cover(r < 0 ? "rejected" : "loaded");
}
