// helpers shared by assembler harnesses: the real two-pass flow of main/naken_asm.cpp on an in-memory source
#ifndef ASMLIB_H
#define ASMLIB_H
#include "symx.h"
#include <string.h>
#include <stdio.h>
#include "core/AsmContext.h"
#include "core/tokens.h"

static inline int vp_pass(AsmContext *ctx, const char *src, int pass)
{
  tokens_open_buffer(ctx, src);
  ctx->pass = pass;
  ctx->init();
  return ctx->assemble();
}
// returns 0 when both passes accept
static inline int vp_assemble(AsmContext *ctx, const char *src)
{
  ctx->quiet_output = true;
  int e = vp_pass(ctx, src, 1);
  if (e != 0) return e;
  ctx->symbols.lock();
  ctx->symbols.scope_reset();
  e = vp_pass(ctx, src, 2);
  return e;
}
// same flow with the source in a (virtual) file, as naken_asm reads it; needed when .include is used
static inline int vp_assemble_file(AsmContext *ctx, const char *name, const char *src)
{
  symx_file_put(name, src, strlen(src));
  ctx->quiet_output = true;
  if (tokens_open_file(ctx, name) != 0) return -100;
  ctx->pass = 1; ctx->init();
  int e = ctx->assemble();
  if (e == 0)
  {
    ctx->symbols.lock(); ctx->symbols.scope_reset();
    ctx->pass = 2; ctx->init();
    e = ctx->assemble();
  }
  tokens_close(ctx);
  return e;
}
static inline char *vp_append(char *dst, const char *s) { while (*s) *dst++ = *s++; *dst = 0; return dst; }
#endif
