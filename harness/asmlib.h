// helpers shared by assembler harnesses: the real two-pass flow of main/naken_asm.cpp on an in-memory source
#ifndef ASMLIB_H
#define ASMLIB_H
#include "symx.h"
#include <string.h>
#include <stdio.h>
#include "core/AsmContext.h"
#include "core/tokens.h"

static inline int vp_pass(AsmContext *ctx, const char *src, int pass)
{
  tokens_open_buffer(ctx, src);
  ctx->pass = pass;
  ctx->init();
  return ctx->assemble();
}
// returns 0 when both passes accept
static inline int vp_assemble(AsmContext *ctx, const char *src)
{
  ctx->quiet_output = true;
  int e = vp_pass(ctx, src, 1);
  if (e != 0) return e;
  ctx->symbols.lock();
  ctx->symbols.scope_reset();
  e = vp_pass(ctx, src, 2);
  return e;
}
static inline char *vp_append(char *dst, const char *s) { while (*s) *dst++ = *s++; *dst = 0; return dst; }
#endif
