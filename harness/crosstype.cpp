// C13 (output type / position in the file): the image written for one program does not depend on the output type,
// nor on how many empty lines precede the program.  The number of preceding empty lines is SYMBOLIC: it is the
// value added to tokens.line right after AsmContext::init() in both passes (an empty line does nothing else:
// AsmContext::assemble() only increments tokens.line on TOKEN_EOL).  The real two-pass flow assembles the program,
// the real file_write() writes hex, bin, srec and wdc files, an own Intel-HEX decoder and the real srec/wdc
// readers bring them back, and every byte in low..high must be the same in all of them.
#include "asmlib.h"
#include "fileio/file.h"
#include "fileio/read_srec.h"
#include "fileio/read_wdc.h"
#ifndef PROGRAM
#define PROGRAM ".msp430\n.org 0x1000\nstart:\n  mov.w #5, r4\n  add.w r4, r5\n  .db 1, 2\n  jmp start\n"
#endif
static char fbuf[8192];
static uint8_t img[256]; static uint8_t have[256];

static int hexv(char c) { return c >= '0' && c <= '9' ? c - '0' : c >= 'A' && c <= 'F' ? c - 'A' + 10 : c >= 'a' && c <= 'f' ? c - 'a' + 10 : -1; }
static int hex2(const char *p) { return hexv(p[0]) * 16 + hexv(p[1]); }
// Intel HEX per the 1988 specification: record types 00 data, 01 end, 02 segment, 04 linear
static int decode_hex(const char *f, long n, uint32_t low)
{
  uint32_t upper = 0; long p = 0; int count = 0;
  while (p < n)
  {
    if (f[p] != ':') return -1;
    int len = hex2(f + p + 1), addr = hex2(f + p + 3) * 256 + hex2(f + p + 5), type = hex2(f + p + 7);
    if (type == 1) break;
    if (type == 4) upper = (uint32_t)(hex2(f + p + 9) * 256 + hex2(f + p + 11)) << 16;
    else if (type == 2) upper = (uint32_t)(hex2(f + p + 9) * 256 + hex2(f + p + 11)) << 4;
    else if (type == 0)
      for (int i = 0; i < len; i++)
      {
        uint32_t a = upper + (uint32_t)addr + (uint32_t)i;
        if (a - low < 256) { img[a - low] = (uint8_t)hex2(f + p + 9 + 2 * i); have[a - low]++; }
        count++;
      }
    p += 9 + 2 * len + 2;
    while (p < n && (f[p] == '\n' || f[p] == '\r')) p++;
  }
  return count;
}

extern "C" void harness_main()
{
  AsmContext *c = new AsmContext();
  c->quiet_output = true;
  uint32_t skipped = symx_u32("empty_lines_before");
  symx_assume(skipped <= 0x3fffffffu);
  int e = 0;
  for (int pass = 1; pass <= 2 && e == 0; pass++)
  {
    tokens_open_buffer(c, PROGRAM);
    c->pass = pass;
    c->init();
    c->tokens.line += (int)skipped;
    e = c->assemble();
    if (pass == 1 && e == 0) { c->symbols.lock(); c->symbols.scope_reset(); }
  }
  symx_assert(e == 0, "the program assembles wherever it starts in the file");
  if (e != 0) return;
  uint32_t low = c->memory.low_address, high = c->memory.high_address;
  symx_assert(high >= low && high - low < 200, "image bounds");
  if (!(high >= low && high - low < 200)) return;
  int size = (int)(high - low + 1);
  symx_assert(file_write("o.bin", c, FILE_TYPE_BIN) == 0 && file_write("o.hex", c, FILE_TYPE_HEX) == 0 && file_write("o.srec", c, FILE_TYPE_SREC) == 0 && file_write("o.wdc", c, FILE_TYPE_WDC) == 0, "all writers succeed");
  // bin: the reference image
  static uint8_t bin[256];
  long nb = symx_file_get("o.bin", bin, sizeof(bin));
  symx_assert(nb == size, "the binary file covers low..high");
  if (nb != size) return;
  for (int i = 0; i < size; i++) symx_assert(bin[i] == c->memory.read8(low + (uint32_t)i), "the binary file is the assembled image");
  // hex through the own decoder
  long nh = symx_file_get("o.hex", fbuf, sizeof(fbuf) - 1);
  symx_assert(nh > 0, "hex file written"); if (nh <= 0) return; fbuf[nh] = 0;
  int count = decode_hex(fbuf, nh, low);
  symx_assert(count == size, "the hex file carries exactly the bytes of the binary file");
  for (int i = 0; i < size; i++) { symx_assert(have[i] == 1, "every image byte is in the hex file once"); if (have[i] == 1) symx_assert(img[i] == bin[i], "hex and bin outputs hold the same byte"); }
  // srec and wdc through the real readers
  Memory *m1 = new Memory(), *m2 = new Memory();
  symx_assert(read_srec("o.srec", m1) >= 0, "srec output loads");
  symx_assert(read_wdc("o.wdc", m2) >= 0, "wdc output loads");
  symx_assert(m1->low_address == low && m1->high_address == high, "srec output spans the same addresses as the binary output");
  symx_assert(m2->low_address == low && m2->high_address == high, "wdc output spans the same addresses as the binary output");
  for (int i = 0; i < size; i++)
  {
    symx_assert(m1->read8(low + (uint32_t)i) == bin[i], "srec and bin outputs hold the same byte");
    symx_assert(m2->read8(low + (uint32_t)i) == bin[i], "wdc and bin outputs hold the same byte");
  }
  symx_cover("compared");
}
