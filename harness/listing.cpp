// C18: the listing (-l) tells the truth about the output.
// The real main() assembles PROGRAM (with symbolic data/operand values) with -l and -type bin; the harness parses
// the listing (instruction lines "0xAAAA: 0xWWWW ..." or "0xAAAA: bb bb .. text", continuation lines, and the
// "data sections" dump "aaaa: bb bb ...") and compares every listed byte with the byte at that address in the
// output file, and checks that every written byte of the output is listed exactly once.
#include "symx.h"
#include <string.h>
#include <stdio.h>
extern int naken_asm_main(int argc, char *argv[]);
static char prog[600]; static char lst[16384]; static uint8_t bin[4096];
static uint8_t seen[4096];
static int hv(uint8_t c) { return (c & 0xf) + ((c >> 6) * 9); }
static int ishex(char c) { return (c >= '0' && c <= '9') || (c >= 'a' && c <= 'f') || (c >= 'A' && c <= 'F'); }
static void on_exit_hook(int status) { symx_cover("exit-called"); }
extern "C" void harness_main()
{
  uint32_t a = symx_u16("a"), b = symx_u8("b"), c = symx_u8("c");
  sprintf(prog, PROGRAM_FMT, a, b, c, a);
  symx_file_put("in.asm", prog, strlen(prog));
  { uint8_t blob[3] = { (uint8_t)b, (uint8_t)c, 0x55 }; symx_file_put("blob.bin", blob, 3); }   // for programs that use .binfile
  symx_on_exit(on_exit_hook);
  static char a0[] = "naken_asm", a1[] = "-l", a2[] = "-type", a3[] = "bin", a4[] = "-o", a5[] = "out.bin", a6[] = "in.asm";
  char *argv[8] = { a0, a1, a2, a3, a4, a5, a6, 0 };
  int status = naken_asm_main(7, argv);
  symx_assert(status == 0, "the program assembles");
  if (status != 0) return;
  long nb = symx_file_get("out.bin", bin, sizeof(bin));
  long nl = symx_file_get("out.lst", lst, sizeof(lst) - 1);
  symx_assert(nb > 0 && nl > 0, "output and listing were written");
  if (nb <= 0 || nl <= 0) return;
  lst[nl] = 0;
  memset(seen, 0, sizeof(seen));
  const uint32_t low = LOW;
  int in_data = 0; long i = 0; int listed = 0;
  while (i < nl)
  {
    long e = i; while (e < nl && lst[e] != '\n') e++;
    // "data sections:" switches to the dump format
    if (e - i >= 14 && memcmp(lst + i, "data sections:", 14) == 0) in_data = 1;
    if (!in_data && e - i > 8 && lst[i] == '0' && lst[i + 1] == 'x' && lst[i + 6] == ':')
    {
      uint32_t addr = 0; for (int k = 2; k < 6; k++) addr = addr * 16 + hv((uint8_t)lst[i + k]);
      long p = i + 8;
#if WORDS
      // "0xAAAA: 0xWWWW ..."  one little-endian word
      if (lst[p] == '0' && lst[p + 1] == 'x')
      {
        uint32_t w = 0; for (int k = 2; k < 6; k++) w = w * 16 + hv((uint8_t)lst[p + k]);
        for (int k = 0; k < 2; k++)
        {
          uint32_t off = addr * BPA - low + k;
          symx_assert(off < (uint32_t)nb, "listed address lies inside the output");
          if (off < (uint32_t)nb) { symx_assert(bin[off] == (uint8_t)(w >> (8 * k)), "a byte shown on an instruction line equals the output byte at that address"); seen[off]++; listed++; }
        }
      }
#else
      // "0xAAAA: bb bb bb          text"
      int k = 0;
      while (ishex(lst[p]) && ishex(lst[p + 1]) && lst[p + 2] == ' ' && k < 8)
      {
        uint32_t off = addr * BPA - low + k; uint8_t v = (uint8_t)(hv((uint8_t)lst[p]) * 16 + hv((uint8_t)lst[p + 1]));
        symx_assert(off < (uint32_t)nb, "listed address lies inside the output");
        if (off < (uint32_t)nb) { symx_assert(bin[off] == v, "a byte shown on an instruction line equals the output byte at that address"); seen[off]++; listed++; }
        p += 3; k++;
      }
#endif
    }
    else if (in_data && e - i > 5 && ishex(lst[i]) && ishex(lst[i + 3]) && lst[i + 4] == ':')
    {
      uint32_t addr = 0; for (int k = 0; k < 4; k++) addr = addr * 16 + hv((uint8_t)lst[i + k]);
      long p = i + 5; int k = 0;
      while (lst[p] == ' ' && ishex(lst[p + 1]) && ishex(lst[p + 2]) && (lst[p + 3] == ' ' || lst[p + 3] == '\n') && k < 16)
      {
        uint32_t off = addr * BPA - low + k; uint8_t v = (uint8_t)(hv((uint8_t)lst[p + 1]) * 16 + hv((uint8_t)lst[p + 2]));
        symx_assert(off < (uint32_t)nb, "address in the data dump lies inside the output");
        if (off < (uint32_t)nb) { symx_assert(bin[off] == v, "a byte shown in the data sections dump equals the output byte at that address"); seen[off]++; listed++; }
        p += 3; k++;
      }
    }
    i = e + 1;
  }
  symx_assert(listed >= EXPECT_BYTES, "the listing shows the program's bytes");
  static const uint8_t gap[] = { GAPS 255 };
  for (long off = 0; off < nb && off < 4096; off++)
  {
    int is_gap = 0; for (unsigned g = 0; g + 1 < sizeof(gap); g++) if (gap[g] == off) is_gap = 1;
    if (is_gap) symx_assert(seen[off] == 0, "unwritten bytes are not listed"); else symx_assert(seen[off] == 1, "every byte of the output appears in the listing exactly once");
  }
  symx_cover("compared");
}
