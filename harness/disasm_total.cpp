// C08: one-instruction disassembly is total, bounded, NUL-terminated, local.
// Parameters: DISASM_FN, DISASM_HDR, NBYTES (symbolic window), BASE (address),
// MINLEN/MAXLEN (bytes), FLAGS, TEXTLEN, ENDIAN
#include "symx.h"
#include <string.h>
#include DISASM_HDR
#ifndef TEXTLEN
#define TEXTLEN 128
#endif
#ifndef FLAGS
#define FLAGS 0
#endif
#ifndef ENDIAN
#define ENDIAN 0
#endif
extern "C" void harness_main()
{
  Memory memory; memory.endian = ENDIAN;
  uint8_t b[NBYTES];
  for (int i = 0; i < NBYTES; i++) b[i] = symx_u8("b");
#ifdef PART_MASK
  symx_assume((b[PART_BYTE] & PART_MASK) == PART_VAL);   // partition of the opcode space handled by this job
#elif defined(PART_BYTE)
  symx_assume((b[PART_BYTE] >> 4) == PART);      // partition of the opcode space handled by this job
#endif
  for (int i = 0; i < NBYTES; i++) memory.write8(BASE + i, b[i]);
  char text[TEXTLEN]; int cmin = 0, cmax = 0;
  memset(text, 0x55, sizeof(text));
  int n = DISASM_FN(&memory, BASE, text, TEXTLEN, FLAGS, &cmin, &cmax);
  symx_note("len", (uint64_t)(int64_t)n);
  int terminated = 0;
  for (int i = 0; i < TEXTLEN; i++) if (text[i] == 0) { terminated = 1; break; }
  symx_assert(terminated, "text is NUL-terminated inside the caller's buffer");
  if (terminated) symx_note_str("text", text);
  symx_assert(n >= MINLEN, "length is at least one addressable unit");
  symx_assert(n <= MAXLEN, "length is at most the longest instruction");
#ifdef LOCALITY
  if (n >= MINLEN && n <= MAXLEN && n < NBYTES && terminated)
  {
    Memory m2; m2.endian = ENDIAN;
    for (int i = 0; i < NBYTES; i++) m2.write8(BASE + i, i < n ? b[i] : symx_u8("c"));
    char t2[TEXTLEN]; int c1 = 0, c2 = 0;
    int n2 = DISASM_FN(&m2, BASE, t2, TEXTLEN, FLAGS, &c1, &c2);
    // A decoder for a prefix ISA must look at a following byte to find out that a
    // sequence is undefined; so the claim is made for the longer of the two decodes:
    // if the second decode also stays inside the first n bytes, the results agree.
#ifdef STRIP_SEMI_COMMENT
    // "; (1234)" after an indirect PDP-8 operand shows the memory word the operand points to: a comment about
    // other memory (which may be the following word), not part of the instruction text
    for (int i = 0; text[i]; i++) if (text[i] == ' ' && text[i + 1] == ';') { text[i] = 0; break; }
    for (int i = 0; t2[i]; i++) if (t2[i] == ' ' && t2[i + 1] == ';') { t2[i] = 0; break; }
#endif
    symx_assert(n2 > n || n2 == n, "length does not depend on bytes after the instruction");
    symx_assert(n2 > n || strcmp(t2, text) == 0, "text does not depend on bytes after the instruction");
  }
#endif
  symx_cover("disasm-completed");
}
