// C13 (the image is a function of the source alone): an instruction cut short at an engine-chosen position
// (MODE 1), with one character deleted (MODE 2) one character replaced by a separator/bracket (MODE 3),
// or up to nine surplus operands appended (MODE 4) / put in front (MODE 5).
// The source text is CONCRETE, so every byte the assembler emits must be concrete too: the engine gives every
// uninitialised byte it loads a fresh symbolic value, hence an emitted byte that is symbolic was computed from
// uninitialised storage (an operand variable that was never set), i.e. from something that is not in the source.
// Also asserted: both passes agree on the size, the assembler terminates, every access stays inside its object.
#include "asmlib.h"
#ifndef ORG
#define ORG "0x1000"
#endif
#ifndef MODE
#define MODE 1
#endif
#if MODE == 1 || MODE == 2 || MODE == 3
#define MODE_FULL len
#else
#define MODE_FULL 0
#endif
static char src[300];
extern "C" void harness_main()
{
  static const char instr[] = INSTR;
  int len = (int)sizeof(instr) - 1;
  char *p = src;
  p = vp_append(p, "." CPUNAME "\n.org " ORG "\n  ");
#if MODE == 1
  int cut = 1 + (int)symx_fork("cut", len);          // keep the first `cut` characters (cut == len: the whole instruction)
  for (int i = 0; i < cut; i++) *p++ = instr[i];
#elif MODE == 2                                       /* one character deleted */
  int cut = (int)symx_fork("del", len + 1);           // cut == len: nothing deleted
  for (int i = 0; i < len; i++) if (i != cut) *p++ = instr[i];
#elif MODE == 3                                       /* one character replaced by a separator or bracket */
  int cut = (int)symx_fork("pos", len + 1);
  static const char repl[] = " ,()#+";
  char r = repl[symx_fork("repl", 6)];
  for (int i = 0; i < len; i++) *p++ = (i == cut) ? r : instr[i];
#elif MODE == 4                                       /* surplus operands appended */
  int cut = (int)symx_fork("extra", 10);              // 0..9 further operands
  for (int i = 0; i < len; i++) *p++ = instr[i];
  for (int i = 0; i < cut; i++) { *p++ = ','; *p++ = (char)('1' + i); }
#elif MODE == 5                                       /* surplus operands in front */
  int cut = (int)symx_fork("extra", 10);
  int sp = 0; while (instr[sp] != ' ' && instr[sp] != 0) sp++;
  for (int i = 0; i <= sp && i < len; i++) *p++ = instr[i];
  for (int i = 0; i < cut; i++) { *p++ = (char)('1' + i); *p++ = ','; }
  for (int i = sp + 1; i < len; i++) *p++ = instr[i];
#endif
  *p++ = '\n'; *p = 0;
  symx_note_str("line", src + (sizeof("." CPUNAME "\n.org " ORG "\n") - 1));
  AsmContext *c = new AsmContext();
  int e = vp_assemble(c, src);
  if (cut == (MODE_FULL)) symx_assert(e == 0, "the complete instruction is accepted (it is, by the native build, when the job list was made)");
  if (e != 0) { symx_cover("rejected"); return; }
  symx_cover("accepted");
  uint32_t low = c->memory.low_address, high = c->memory.high_address;
  if (high < low) { symx_cover("nothing-emitted"); return; }
  symx_assert(high - low < 64, "one instruction emits a few bytes");
  for (uint32_t a = low; a <= high && a - low < 64; a++)
  {
    uint8_t b = c->memory.read8(a);
    symx_assert(!symx_is_symbolic(b), "every emitted byte is determined by the source text (none is computed from uninitialised storage)");
  }
}
