// C19: naken_util memory commands (write/write16/write32 then print/print16/print32 and direct reads).
// CPU chosen by CPUNAME (bytes per address, byte order); the address comes from concrete classes, written in a
// spelling chosen by the engine (decimal, 0x hex, h-suffix hex); the values are symbolic and written in decimal
// or hex; the real UtilContext command handlers, number/address parsers and the real Memory run.
#include "symx.h"
#include <string.h>
#include <stdio.h>
#include "core/UtilContext.h"
static char cmd[200]; static char out[4096];
static char *put_num(char *p, uint32_t v, int spelling)
{
  if (spelling == 0) p += sprintf(p, "%u", v);
  else if (spelling == 1) p += sprintf(p, "0x%x", v);
  else p += sprintf(p, "0%xh", v);
  return p;
}
static int hv(uint8_t c) { return (c & 0xf) + ((c >> 6) * 9); }
extern "C" void harness_main()
{
  UtilContext *uc = new UtilContext();
  symx_assume(uc->set_cpu_by_name(CPUNAME) == 1);
  const int bpa = uc->bytes_per_address;
  // 0x102: 16-bit aligned but not 32-bit aligned (only offered to the 8/16-bit commands)
  // ADDRSET selects which classes this job enumerates (0: {0, 0x20}, 1: {0xfffc, 0x12344}, 2: {0x102})
  static const uint32_t addrs[5] = { 0x0, 0x20, 0xfffc, 0x12344, 0x102 };
  uint32_t addr = addrs[2 * ADDRSET + (ADDRSET == 2 ? 0 : (int)symx_fork("addr", 2))];          // in address units of the CPU
  int asp = symx_fork("addr_spelling", 3);
  int vsp = symx_fork("value_spelling", 3);             // decimal, 0x hex or h-suffix hex
  uint32_t v0 = symx_u32("v0"), v1 = symx_u32("v1");
  uint32_t mask = WIDTH == 8 ? 0xff : WIDTH == 16 ? 0xffff : 0xffffffffu;
  symx_assume(v0 <= mask && v1 <= mask);
  // neighbours get a known content first
  uint32_t base = addr * bpa;
  for (int i = -2; i < 12; i++) if ((int64_t)base + i >= 0) uc->memory.write8(base + i, 0xee);
  char *p = cmd; *p = 0;
  p = put_num(p, addr, asp); *p++ = ' '; p = put_num(p, v0, vsp); *p++ = ' '; p = put_num(p, v1, vsp); *p = 0;
  symx_note_str("args", cmd);
#if WIDTH == 8
  uc->write8(cmd);
#elif WIDTH == 16
  uc->write16(cmd);
#else
  uc->write32(cmd);
#endif
  const int nb = WIDTH / 8;
  uint32_t vals[2] = { v0, v1 };
  int big = uc->memory.endian == ENDIAN_BIG;
  for (int k = 0; k < 2; k++)
    for (int i = 0; i < nb; i++)
    {
      uint8_t want = (uint8_t)(vals[k] >> (8 * (big ? nb - 1 - i : i)));
      symx_assert(uc->memory.read8(base + k * nb + i) == want, "write* stores each value at address * bytes_per_address in the CPU's byte order");
    }
  symx_assert(uc->memory.read8(base + 2 * nb) == 0xee, "write* leaves the byte after the last value unchanged");
  if (base >= 1) symx_assert(uc->memory.read8(base - 1) == 0xee, "write* leaves the byte before the first value unchanged");
  // read back through the print command (captured stdout): "0xADDR: vvvv vvvv ..." in hex
  symx_capture_stdout(1);
  char range[64]; char *q = range; q = put_num(q, addr, asp); *q++ = '-'; q = put_num(q, addr + (2 * nb) / bpa + ((2 * nb) % bpa ? 1 : 0), 1); *q = 0;
#if WIDTH == 8
  uc->print8(range);
#elif WIDTH == 16
  uc->print16(range);
#else
  uc->print32(range);
#endif
  long n = symx_file_get("<stdout>", out, sizeof(out) - 1);
  symx_assert(n > 0, "print* prints something for a written range");
  if (n <= 0) return;
  out[n] = 0;
  // first line: address, colon, then values separated by single spaces
  long i = 0; while (i < n && out[i] != ':') i++;
  symx_assert(i < n, "print* output has an address column");
  if (i >= n) return;
  uint32_t shown_addr = 0; for (long k = 2; k < i; k++) shown_addr = shown_addr * 16 + hv((uint8_t)out[k]);
  symx_assert(shown_addr == addr, "print* shows the address that was asked for (in address units)");
  i++;
  for (int k = 0; k < 2; k++)
  {
    while (out[i] == ' ') i++;
    uint32_t got = 0; int nd = 0;
    while (nd < WIDTH / 4 && out[i] != ' ' && out[i] != '\n' && out[i] != 0) { got = got * 16 + hv((uint8_t)out[i]); i++; nd++; }
    symx_assert(got == vals[k], "print* shows exactly the values written");
  }
  symx_cover("roundtrip");
}
