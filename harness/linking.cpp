// C20: linking ELF32 relocatable objects / ar archives into a MIPS program through naken_asm's real main().
// The object file is built here (little-endian ELF32: .text, .symtab, .strtab, .rel.text, .shstrtab) with three
// global functions fa, fb, fc whose instruction words are symbolic, an undefined symbol fu, and up to two call
// sites (jal + R_MIPS_26 relocation against a named symbol) whose position and target are chosen by the engine.
// The program calls a symbolic selection of the functions.  The oracle walks the output image from the program's
// own jal words: every function in the reference closure must be present once, byte-identical, calls re-bound.
//   LIBKIND 1: lib.o   2: lib.a (one member)   3: lib.a (symbol-index member, fa+fb in member 1, fc in member 2)
//   EXTRASEC 1/2: additional sections .text.startup, .data, .rel.text.startup after / before the ones they resemble
//   UNSUPPORTED 1: big-endian ELF32  2: ELF64 header  3: truncated after the ELF magic  4: truncated inside the section
//   header table  5: big-endian ELF32 as the only archive member
#include "symx.h"
#include <string.h>
#include <stdio.h>
extern int naken_asm_main(int argc, char *argv[]);
#ifndef ORG
#define ORG 0x1000
#endif
#ifndef LIBKIND
#define LIBKIND 1
#endif
#ifndef NA
#define NA 3
#endif
#ifndef NB
#define NB 2
#endif
#ifndef NC
#define NC 2
#endif
#ifndef BIGEND
#define BIGEND 0
#endif
#ifndef EXTRASEC
#define EXTRASEC 0
#endif
#define NF 3
static uint8_t lib[4096]; static long liblen;
static uint8_t out[4096];
static char prog[512];
static char stdout_buf[8192];

struct Func { const char *name; int nwords; uint32_t word[4]; int call_at; int call_to; uint32_t value; int member; };
static Func F[NF] = { { "fa", NA }, { "fb", NB }, { "fc", NC } };
static const char *names[5] = { "fa", "fb", "fc", "fu", "fx" };     // fu: undefined in the object; fx: in no file

static void p16(uint8_t *p, unsigned v) { p[0] = (uint8_t)v; p[1] = (uint8_t)(v >> 8); }
static void p32(uint8_t *p, uint32_t v) { p[0] = (uint8_t)v; p[1] = (uint8_t)(v >> 8); p[2] = (uint8_t)(v >> 16); p[3] = (uint8_t)(v >> 24); }
static void ptext(uint8_t *p, uint32_t v) { if (BIGEND) { p[3] = (uint8_t)v; p[2] = (uint8_t)(v >> 8); p[1] = (uint8_t)(v >> 16); p[0] = (uint8_t)(v >> 24); } else p32(p, v); }

// builds one ELF32 object holding functions [f0, f1); returns its length
static long build_obj(uint8_t *o, int f0, int f1)
{
  static const char shstr[] = "\0.text\0.symtab\0.strtab\0.rel.text\0.shstrtab\0.text.startup\0.data\0.rel.text.startup";   // offsets 1, 7, 15, 23, 33, 43, 57, 63
  uint8_t text[64], symtab[16 * 8], strtab[64], rel[32];
  long ntext = 0, nsym = 16, nstr = 1, nrel = 0;
  memset(symtab, 0, sizeof(symtab)); strtab[0] = 0;
  int symidx[5] = { 0, 0, 0, 0, 0 };
  // defined functions
  for (int f = f0; f < f1; f++)
  {
    F[f].value = (uint32_t)ntext;
    for (int w = 0; w < F[f].nwords; w++) { ptext(text + ntext, F[f].word[w]); ntext += 4; }
    symidx[f] = (int)(nsym / 16);
    p32(symtab + nsym, (uint32_t)nstr); p32(symtab + nsym + 4, F[f].value); p32(symtab + nsym + 8, (uint32_t)F[f].nwords * 4);
    symtab[nsym + 12] = 0x12; symtab[nsym + 13] = 0; p16(symtab + nsym + 14, 1); nsym += 16;
    strcpy((char *)strtab + nstr, F[f].name); nstr += strlen(F[f].name) + 1;
  }
  // undefined symbols referenced by call sites
  for (int f = f0; f < f1; f++)
  {
    int t = F[f].call_to;
    if (F[f].call_at < 0) continue;
    if (symidx[t] == 0)
    {
      symidx[t] = (int)(nsym / 16);
      p32(symtab + nsym, (uint32_t)nstr); symtab[nsym + 12] = 0x10; nsym += 16;     // NOTYPE GLOBAL UND, size 0
      strcpy((char *)strtab + nstr, names[t]); nstr += strlen(names[t]) + 1;
    }
    p32(rel + nrel, F[f].value + 4 * (uint32_t)F[f].call_at); p32(rel + nrel + 4, ((uint32_t)symidx[t] << 8) | 4); nrel += 8;
  }
  long pos = 52;
  struct { int name, type; long off, size; int link, info, ent; } S[12]; int ns = 0;
  memset(o, 0, 52);
  S[ns++] = { 0, 0, 0, 0, 0, 0, 0 };
#define ADD(nm, ty, data, len, lk, inf, en) do { while (pos & 3) o[pos++] = 0; memcpy(o + pos, data, (size_t)(len)); S[ns++] = { nm, ty, pos, (long)(len), lk, inf, en }; pos += (len); } while (0)
  // EXTRASEC: other sections a compiler emits, whose names start like the ones the linker looks for
  //   1: after the sections they resemble   2: before them
  static const uint8_t startup[8] = { 0x77, 0x77, 0x02, 0x24, 0x77, 0x77, 0x02, 0x24 }, data[4] = { 1, 2, 3, 4 };
  uint8_t rel_startup[16];
  // relocations of .text.startup at the same offsets as the call sites of .text, but naming symbol 1 (the first function)
  for (int i = 0; i < 2; i++) { p32(rel_startup + 8 * i, i < nrel / 8 ? (uint32_t)(rel[8 * i] | rel[8 * i + 1] << 8) : 0); p32(rel_startup + 8 * i + 4, (1u << 8) | 4); }
  int text_index = EXTRASEC == 2 ? 3 : 1;
  for (long q = 16; q < nsym; q += 16) if (symtab[q + 14] == 1) p16(symtab + q + 14, (unsigned)text_index);
  if (EXTRASEC == 2) { ADD(43, 1, startup, 8, 0, 0, 0); ADD(63, 9, rel_startup, 16, 0, 1, 8); }
  ADD(1, 1, text, ntext, 0, 0, 0);
  if (EXTRASEC == 1) { ADD(43, 1, startup, 8, 0, 0, 0); ADD(57, 1, data, 4, 0, 0, 0); }
  int symtab_index = ns;
  ADD(7, 2, symtab, nsym, symtab_index + 1, 1, 16);
  ADD(15, 3, strtab, nstr, 0, 0, 0);
  ADD(23, 9, rel, nrel, symtab_index, text_index, 8);
  if (EXTRASEC == 1) ADD(63, 9, rel_startup, 16, symtab_index, 2, 8);
  int shstr_index = ns;
  ADD(33, 3, shstr, (long)sizeof(shstr), 0, 0, 0);
  while (pos & 3) o[pos++] = 0;
  long shoff = pos;
  for (int i = 0; i < ns; i++)
  {
    uint8_t *h = o + pos; memset(h, 0, 40);
    p32(h, (uint32_t)S[i].name); p32(h + 4, (uint32_t)S[i].type); p32(h + 16, (uint32_t)S[i].off); p32(h + 20, (uint32_t)S[i].size);
    p32(h + 24, (uint32_t)S[i].link); p32(h + 28, (uint32_t)S[i].info); p32(h + 32, 4); p32(h + 36, (uint32_t)S[i].ent);
    pos += 40;
  }
  o[0] = 0x7f; o[1] = 'E'; o[2] = 'L'; o[3] = 'F'; o[4] = 1; o[5] = 1; o[6] = 1;
  p16(o + 16, 1); p16(o + 18, 8); p32(o + 20, 1); p32(o + 32, (uint32_t)shoff); p16(o + 40, 52); p16(o + 46, 40); p16(o + 48, (unsigned)ns); p16(o + 50, (unsigned)shstr_index);
  return pos;
}
static long ar_member(uint8_t *a, const char *name, const uint8_t *data, long n)
{
  char h[60];
  memset(h, ' ', 60); memcpy(h, name, strlen(name)); h[16] = '0'; h[28] = '0'; h[34] = '0'; memcpy(h + 40, "644", 3);
  { char d[12]; int k = 0; long v = n; do { d[k++] = (char)('0' + v % 10); v /= 10; } while (v); for (int i = 0; i < k; i++) h[48 + i] = d[k - 1 - i]; }
  h[58] = '`'; h[59] = '\n';
  memcpy(a, h, 60); memcpy(a + 60, data, (size_t)n);
  long len = 60 + n;
  if (n & 1) a[len++] = '\n';
  return len;
}

static char *app(char *dst, const char *s) { while (*s) *dst++ = *s++; *dst = 0; return dst; }
static int needed[NF];
static void closure(int f) { if (f >= NF || needed[f]) return; needed[f] = 1; if (F[f].call_at >= 0) closure(F[f].call_to); }
static uint32_t rd32(const uint8_t *p) { return BIGEND ? ((uint32_t)p[0] << 24 | (uint32_t)p[1] << 16 | (uint32_t)p[2] << 8 | p[3]) : ((uint32_t)p[3] << 24 | (uint32_t)p[2] << 16 | (uint32_t)p[1] << 8 | p[0]); }
static int contains(const char *hay, long n, const char *needle)
{
  long m = (long)strlen(needle);
  for (long i = 0; i + m <= n; i++) if (memcmp(hay + i, needle, (size_t)m) == 0) return 1;
  return 0;
}

static int expect_error, finished;
static int ncalls, call_to[2];
static void verdict(int status)
{
  if (finished) return;
  finished = 1;
  long n = symx_file_get("<stdout>", stdout_buf, sizeof(stdout_buf) - 1);
  if (n < 0) n = 0;
  long osz = symx_file_size("out.bin");
  symx_note("status", (uint64_t)status); symx_note("outsize", (uint64_t)osz);
  if (expect_error)
  {
    symx_cover("error_case");
    symx_assert(status != 0, "an unresolved symbol or an unsupported object file makes naken_asm fail");
    symx_assert(contains(stdout_buf, n, "Error") || contains(stdout_buf, n, "error"), "the failure is reported with an error message");
    return;
  }
  symx_cover("linked");
  symx_assert(status == 0, "a program whose external references are all defined in the given object files assembles");
  if (status != 0) return;
  long progsz = 8L * ncalls + 8;
  long want = progsz;
  for (int f = 0; f < NF; f++) if (needed[f]) want += 4L * F[f].nwords;
  symx_assert(osz == want, "the image is the program followed by each referenced function exactly once and nothing else");
  if (osz != want || osz > (long)sizeof(out)) return;
  symx_file_get("out.bin", out, sizeof(out));
  // addresses of the functions, learned from the call words that bind to them
  uint32_t addr[NF]; int known[NF] = { 0, 0, 0 };
  for (int i = 0; i < ncalls; i++)
  {
    uint32_t w = rd32(out + 8 * i);
    symx_assert((w >> 26) == 3, "the program's jal keeps its opcode");
    uint32_t a = ((uint32_t)ORG & 0xf0000000u) | ((w & 0x03ffffffu) << 2);
    int t = call_to[i];
    if (known[t]) symx_assert(addr[t] == a, "all calls to one symbol are bound to the same address");
    addr[t] = a; known[t] = 1;
  }
  for (int round = 0; round < NF; round++)
    for (int f = 0; f < NF; f++)
    {
      if (!needed[f] || !known[f]) continue;
      uint32_t a = addr[f];
      symx_assert((a & 3) == 0 && a >= (uint32_t)ORG + (uint32_t)progsz && (long)(a - (uint32_t)ORG) + 4L * F[f].nwords <= osz, "a referenced function lies inside the appended part of the image");
      if (!((a & 3) == 0 && a >= (uint32_t)ORG + (uint32_t)progsz && (long)(a - (uint32_t)ORG) + 4L * F[f].nwords <= osz)) return;
      const uint8_t *p = out + (a - (uint32_t)ORG);
      for (int w = 0; w < F[f].nwords; w++)
      {
        uint32_t got = rd32(p + 4 * w);
        if (w == F[f].call_at)
        {
          symx_assert((got >> 26) == 3, "a relocated jal keeps its opcode");
          uint32_t ta = ((uint32_t)ORG & 0xf0000000u) | ((got & 0x03ffffffu) << 2);
          int t = F[f].call_to;
          if (known[t]) symx_assert(addr[t] == ta, "a call relocation targets the address recorded for the symbol it names");
          addr[t] = ta; known[t] = 1;
        }
        else
          symx_assert(got == F[f].word[w], "the bytes of a linked function are those of the object file");
      }
    }
  for (int f = 0; f < NF; f++)
  {
    if (!needed[f]) continue;
    symx_assert(known[f], "every function in the reference closure is reachable through a bound call");
    for (int g = f + 1; g < NF; g++)
      if (needed[g] && known[f] && known[g])
        symx_assert(addr[f] + 4u * (uint32_t)F[f].nwords <= addr[g] || addr[g] + 4u * (uint32_t)F[g].nwords <= addr[f], "linked functions do not overlap");
  }
}
static void on_exit_hook(int status) { verdict(status); }

extern "C" void harness_main()
{
  // call sites inside the object functions
  for (int f = 0; f < NF; f++)
  {
    F[f].call_at = -1; F[f].call_to = 0;
    for (int w = 0; w < F[f].nwords; w++)
    {
      F[f].word[w] = symx_u32("word");
      symx_assume((F[f].word[w] >> 26) != 3);           // only relocated words are jal instructions
    }
  }
#ifndef UNSUPPORTED
  int site_a = symx_fork("site_a", NA + 1);              // NA: fa calls nothing
  if (site_a < NA) { F[0].call_at = site_a; F[0].call_to = symx_fork("target_a", 4); }    // fa, fb, fc, fu
  int tb = symx_fork("target_b", 3);                     // fb calls: nothing, fc, fa
  if (tb) { F[1].call_at = symx_fork("site_b", NB); F[1].call_to = tb == 1 ? 2 : 0; }
  for (int f = 0; f < NF; f++) if (F[f].call_at >= 0) F[f].word[F[f].call_at] = 0x0c000000u | (symx_u32("jal_field") & 0x00ffffffu);
#endif
  // the library file
#if defined(UNSUPPORTED)
  liblen = build_obj(lib, 0, NF);
#if UNSUPPORTED == 1
  lib[5] = 2;                                            // EI_DATA = big endian; multi-byte fields swapped below
  { uint8_t t; t = lib[32]; lib[32] = lib[35]; lib[35] = t; t = lib[33]; lib[33] = lib[34]; lib[34] = t;
    t = lib[46]; lib[46] = lib[47]; lib[47] = t; t = lib[48]; lib[48] = lib[49]; lib[49] = t; t = lib[50]; lib[50] = lib[51]; lib[51] = t; }
#elif UNSUPPORTED == 2
  lib[4] = 2;                                            // EI_CLASS = ELFCLASS64
#elif UNSUPPORTED == 3
  liblen = 4 + symx_fork("trunc", 3) * 16;               // 4, 20 or 36 bytes: shorter than an ELF32 header
#elif UNSUPPORTED == 4
  liblen = (long)(lib[32] | lib[33] << 8) + 40 * symx_fork("trunc", 5) + 20;   // cut inside the section header table
#endif
  const char *libname = "lib.o";
#if UNSUPPORTED == 5                                       // a big-endian ELF32 as archive member
  static uint8_t arbuf[2048];
  lib[5] = 2; memcpy(arbuf, "!<arch>\n", 8);
  liblen = 8 + ar_member(arbuf + 8, "lib.o/", lib, liblen); memcpy(lib, arbuf, (size_t)liblen);
  libname = "lib.a";
#endif
#elif LIBKIND == 1
  liblen = build_obj(lib, 0, NF);
  const char *libname = "lib.o";
#else
  static uint8_t obj[2048];
  const char *libname = "lib.a";
  memcpy(lib, "!<arch>\n", 8); liblen = 8;
#if LIBKIND == 2
  long n = build_obj(obj, 0, NF);
  liblen += ar_member(lib + liblen, "lib.o/", obj, n);
#else
  static const uint8_t index_member[] = { 0, 0, 0, 0 };   // naken_asm does not consult the index; an empty one is valid
  liblen += ar_member(lib + liblen, "/", index_member, 4);
  long n = build_obj(obj, 0, 2);
  liblen += ar_member(lib + liblen, "ab.o/", obj, n);
  n = build_obj(obj, 2, 3);
  liblen += ar_member(lib + liblen, "c.o/", obj, n);
#endif
#endif
  symx_file_put(libname, lib, (size_t)liblen);
  // the program
  char *p = prog;
  p = app(p, ".mips32\n"); if (BIGEND) p = app(p, ".big_endian\n");
  p = app(p, ".org 0x"); for (int sh = 28; sh >= 0; sh -= 4) *p++ = "0123456789abcdef"[((uint32_t)ORG >> sh) & 15]; p = app(p, "\nmain:\n");
#ifdef UNSUPPORTED
  ncalls = 1; call_to[0] = 0; expect_error = 1;
#else
  ncalls = 1 + symx_fork("ncalls", 2);
  for (int i = 0; i < ncalls; i++) call_to[i] = symx_fork("call", i == 0 ? 5 : 3);       // first call may name fu / fx
#endif
  for (int i = 0; i < ncalls; i++) { p = app(p, "  jal "); p = app(p, names[call_to[i]]); p = app(p, "\n  nop\n"); }
  p = app(p, "  jr $ra\n  nop\n");
  symx_note_str("program", prog);
  for (int f = 0; f < NF; f++) { symx_note("call_at", (uint64_t)(int64_t)F[f].call_at); symx_note("call_to", (uint64_t)F[f].call_to); }
  for (int i = 0; i < ncalls; i++) { if (call_to[i] >= NF) expect_error = 1; else closure(call_to[i]); }
  for (int f = 0; f < NF; f++) if (needed[f] && F[f].call_at >= 0 && F[f].call_to >= NF) expect_error = 1;
  symx_file_put("in.asm", prog, strlen(prog));
  symx_capture_stdout(1);
  symx_on_exit(on_exit_hook);
  static char a0[] = "naken_asm", a1[] = "-o", a2[] = "out.bin", a3[] = "-type", a4[] = "bin", a5[] = "in.asm";
  char *argv[10]; int argc = 0;
  argv[argc++] = a0; argv[argc++] = a1; argv[argc++] = a2; argv[argc++] = a3; argv[argc++] = a4; argv[argc++] = a5; argv[argc++] = (char *)libname; argv[argc] = 0;
  int status = naken_asm_main(argc, argv);
  verdict(status);
}
