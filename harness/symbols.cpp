// C11: symbol resolution and scoping.
// MODE 1: a symbolic sequence of NOPS operations on the real Symbols class vs. an association-list model written from the scoping rules
// MODE 2: pool boundary: entries beyond one 32 KiB pool are still found, counted and iterated
// MODE 3: source templates through the real two-pass assembler (forward/backward references, scopes, shadowing, duplicates, .set)
#include "asmlib.h"
#include "core/Symbols.h"
#if MODE == 1
#ifndef NOPS
#define NOPS 4
#endif
struct MEnt { int name; int scope; uint32_t addr; int rw; };
static MEnt me[NOPS + 2]; static int mn; static int m_in_scope; static uint32_t m_cur;
static const char *names[2] = { "a", "bb" };
static int m_find(int name)
{
  if (m_in_scope) for (int i = 0; i < mn; i++) if (me[i].scope == (int)m_cur && me[i].name == name) return i;
  for (int i = 0; i < mn; i++) if (me[i].scope == 0 && me[i].name == name) return i;
  return -1;
}
#endif
static char src[900];

extern "C" void harness_main()
{
#if MODE == 1
  Symbols *s = new Symbols();
  mn = 0; m_in_scope = 0; m_cur = 0;
  for (int step = 0; step < NOPS; step++)
  {
    int op = symx_fork("op", 5);
    int nm = symx_fork("name", 2);
    uint32_t addr = symx_u32("addr");
    if (op == 0)
    { // label definition
      int f = m_find(nm);
      int dup = f >= 0 && (!m_in_scope || me[f].scope == (int)m_cur);
      int r = s->append(names[nm], addr);
      symx_assert((r != 0) == (dup != 0), "defining a name twice in one scope is an error; shadowing a global inside a scope is not");
      if (!dup) { me[mn].name = nm; me[mn].scope = m_in_scope ? (int)m_cur : 0; me[mn].addr = addr; me[mn].rw = 0; mn++; }
    }
    else if (op == 1)
    { // .set
      int f = m_find(nm);
      int r = s->set(names[nm], addr);
      if (f < 0) { symx_assert(r == 0, ".set creates a symbol"); me[mn].name = nm; me[mn].scope = 0; me[mn].addr = addr; me[mn].rw = 1; mn++; }
      else if (me[f].rw) { symx_assert(r == 0, ".set updates a .set symbol"); me[f].addr = addr; }
      else symx_assert(r != 0, ".set on a label is an error");
    }
    else if (op == 2) { int r = s->scope_start(); symx_assert((r != 0) == (m_in_scope != 0), "nested scopes are rejected"); if (!m_in_scope) { m_in_scope = 1; m_cur++; } }
    else if (op == 3) { s->scope_end(); m_in_scope = 0; }
    // every step ends with lookups of both names
    for (int q = 0; q < 2; q++)
    {
      uint32_t got = 0x5a5a5a5a; int r = s->lookup(names[q], &got);
      int f = m_find(q);
      symx_assert((r == 0) == (f >= 0), "a name resolves iff a definition is visible (current scope first, then global)");
      if (f >= 0 && r == 0) symx_assert(got == me[f].addr, "a reference yields the address of the visible definition");
    }
    symx_assert(s->count() == mn, "every definition is recorded once");
  }
#elif MODE == 2
  Symbols *s = new Symbols();
  char name[256];
  int n = 0;
  // fill the first 32 KiB pool with long names (concrete), then add symbolic-valued entries around the boundary
  for (int i = 0; i < 126; i++)
  {
    memset(name, 'x', 250); name[250] = 0; name[0] = 'A' + (i / 26) % 26; name[1] = 'a' + i % 26; name[2] = '0' + i / 100;
    symx_assume(s->append(name, i) == 0); n++;
  }
  uint32_t v1 = symx_u32("v1"), v2 = symx_u32("v2"), v3 = symx_u32("v3");
  int extra = 1 + symx_fork("extra", 3);          // 1..3 more long names: the last ones land in a second pool
  const char *tail[3] = { "tail_one", "tail_two", "tail_three" };
  uint32_t tv[3] = { v1, v2, v3 };
  for (int i = 0; i < extra; i++)
  {
    memset(name, 'y', 200); name[200] = 0; name[0] = 'Q'; name[1] = '0' + i;
    symx_assume(s->append(name, 1000 + i) == 0); n++;
    symx_assert(s->append(tail[i], tv[i]) == 0, "a new name is accepted whatever pool it lands in"); n++;
  }
  for (int i = 0; i < extra; i++)
  {
    uint32_t got = 0; int r = s->lookup(tail[i], &got);
    symx_assert(r == 0 && got == tv[i], "names beyond the first pool resolve to their address");
  }
  symx_assert(s->count() == n, "count() sees every entry in every pool");
  SymbolsIter iter; int seen = 0; int seen_tail = 0;
  while (s->iterate(&iter) != -1 && seen < 400) { seen++; for (int i = 0; i < extra; i++) if (strcmp(iter.name, tail[i]) == 0) { seen_tail++; symx_assert(iter.address == tv[i], "iterate() reports each entry's address"); } }
  symx_assert(seen == n, "iterate() visits every entry of every pool exactly once");
  symx_assert(seen_tail == extra, "iterate() reaches the entries of the second pool");
  symx_assert(s->append(tail[0], 5) != 0, "a duplicate is detected across pools");
#elif MODE == 3
  AsmContext *c = new AsmContext();
  uint32_t va = symx_u16("va"), vb = symx_u16("vb");
#if T == 8
  symx_assume(va < 0xfe00 && vb < 0xfe00);   /* label + addend stays a 16-bit value: larger sums are .dc16 range errors, not this template's subject */
#endif
  char A[8], B[8]; sprintf(A, "%u", va); sprintf(B, "%u", vb);
  char *p = src; p = vp_append(p, ".msp430\n.org 0x100\n");
#if T == 1   /* forward and backward references */
  p = vp_append(p, ".dc16 fwd\nback: .db 1\n.dc16 back, fwd\nfwd: .db 2\n.dc16 back\n");
  int e = vp_assemble(c, src);
  symx_assert(e == 0, "accepted"); if (e) return;
  symx_assert(c->memory.read16(0x100) == 0x107 && c->memory.read16(0x103) == 0x102 && c->memory.read16(0x105) == 0x107 && c->memory.read16(0x108) == 0x102,
    "forward and backward references yield the address of the definition");
#elif T == 2 /* scopes: same local name in two scopes, global visible inside, shadowing, forward local reference */
  p = vp_append(p, "glob: .db 1\nshadow: .db 9\n.scope\n.dc16 loc\nloc: .db 2\nshadow: .db 8\n.dc16 loc, glob, shadow\n.ends\n.scope\nloc: .db 3\n.dc16 loc, shadow\n.ends\n.dc16 glob, shadow\n");
  int e = vp_assemble(c, src);
  symx_assert(e == 0, "accepted"); if (e) return;
  // layout: 100 glob,101 shadow(g); scope1: 102 dc16 loc; 104 loc; 105 shadow(l); 106 dc16 loc,glob,shadow; scope2: 10c loc; 10d dc16 loc,shadow; 111 dc16 glob,shadow
  symx_assert(c->memory.read16(0x102) == 0x104, "forward reference to a local label resolves to the local definition");
  symx_assert(c->memory.read16(0x106) == 0x104 && c->memory.read16(0x108) == 0x100 && c->memory.read16(0x10a) == 0x105, "inside a scope: local first, then global");
  symx_assert(c->memory.read16(0x10d) == 0x10c && c->memory.read16(0x10f) == 0x101, "a second scope has its own local and sees the global, not the other scope's label");
  symx_assert(c->memory.read16(0x111) == 0x100 && c->memory.read16(0x113) == 0x101, "outside any scope the global definitions are used");
#elif T == 3 /* duplicates */
  int k = symx_fork("k", 4);
  if (k == 0) p = vp_append(p, "dup: .db 1\ndup: .db 2\n");
  if (k == 1) p = vp_append(p, ".scope\ndup: .db 1\ndup: .db 2\n.ends\n");
  if (k == 2) p = vp_append(p, ".scope\ndup: .db 1\n.ends\n.scope\ndup: .db 2\n.ends\n");     // fine
  if (k == 3) p = vp_append(p, "dup: .db 1\n.scope\ndup: .db 2\n.ends\n");                    // shadowing: fine
  int e = vp_assemble(c, src);
  symx_assert((e != 0) == (k < 2), "a name defined twice in one scope is an error, in different scopes it is not");
#elif T == 4 /* .set holds the most recent value in source order; local label outside its scope is unknown */
  p = vp_append(p, ".set v="); p = vp_append(p, A); p = vp_append(p, "\n.dc16 v\n.set v="); p = vp_append(p, B); p = vp_append(p, "\n.dc16 v\n");
  int e = vp_assemble(c, src);
  symx_assert(e == 0, "accepted"); if (e) return;
  symx_assert(c->memory.read16(0x100) == va && c->memory.read16(0x102) == vb, ".set symbols hold the value most recently assigned in source order");
#elif T == 5 /* a local label is not visible outside its scope */
  p = vp_append(p, ".scope\nonlyloc: .db 1\n.ends\n.dc16 onlyloc\n");
  int e = vp_assemble(c, src);
  symx_assert(e != 0, "a local label is not visible outside its scope");
#elif T == 6 /* .func / .endf */
  p = vp_append(p, ".func f1\nl: .db 1\n.dc16 l\n.endf\n.func f2\nl: .db 2\n.dc16 l\n.endf\n.dc16 f1, f2\n");
  int e = vp_assemble(c, src);
  symx_assert(e == 0, "accepted"); if (e) return;
  symx_assert(c->memory.read16(0x101) == 0x100 && c->memory.read16(0x104) == 0x103, "labels inside functions are local to them");
  symx_assert(c->memory.read16(0x106) == 0x100 && c->memory.read16(0x108) == 0x103, "function names are global labels at the function's address");
#elif T == 7 /* the same local name in three consecutive scopes, forward-referenced in the second and third */
  p = vp_append(p, ".scope\nloc: .db 1\n.ends\n.scope\n.dc16 loc\n.db 5\nloc: .db 2\n.ends\n.scope\n.dc16 loc\nloc: .db 3\n.dc16 loc\n.ends\n");
  int e = vp_assemble(c, src);
  symx_assert(e == 0, "accepted"); if (e) return;
  // layout: 100 loc(s1); s2: 101 dc16 loc, 103 db 5, 104 loc; s3: 105 dc16 loc, 107 loc, 108 dc16 loc
  symx_assert(c->memory.read16(0x101) == 0x104, "a forward local reference in a later scope resolves to that scope's definition, not an earlier scope's");
  symx_assert(c->memory.read16(0x105) == 0x107 && c->memory.read16(0x108) == 0x107, "third scope: forward and backward references agree on its own definition");
#elif T == 8 /* label values in expressions with a symbolic addend, forward and backward */
  p = vp_append(p, "back: .db 1\n.dc16 back + "); p = vp_append(p, A); p = vp_append(p, "\n.dc16 fwd + "); p = vp_append(p, B); p = vp_append(p, "\nfwd: .db 2\n");
  int e = vp_assemble(c, src);
  symx_assert(e == 0, "accepted"); if (e) return;
  symx_assert(c->memory.read16(0x101) == ((0x100 + va) & 0xffff) && c->memory.read16(0x103) == ((0x105 + vb) & 0xffff), "label + constant evaluates with the label's address in both directions");
#endif
#endif
}
