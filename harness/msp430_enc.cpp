// C01(c): MSP430 core instruction encodings vs. the family user's guide (SLAU144 §3.3 addressing modes,
// §3.4 instruction formats), independent of the repository's tables.
// The instruction text is built from symbolic choices (mnemonic, size suffix, addressing modes, registers)
// and symbolic 16-bit operand values written in decimal; the real two-pass assembler encodes it; the
// reference encoder below computes the expected words.
#include "asmlib.h"
#define ORG 0x8000
static char src[400];
static const char *two_ops[12] = { "mov", "add", "addc", "subc", "sub", "cmp", "dadd", "bit", "bic", "bis", "xor", "and" };
static const char *one_ops[6] = { "rrc", "swpb", "rra", "sxt", "push", "call" };
static const char *jumps[8] = { "jne", "jeq", "jnc", "jc", "jn", "jge", "jl", "jmp" };
static char *put_u(char *p, unsigned v) { p += sprintf(p, "%u", v); return p; }
static char *put_reg(char *p, int r) { *p++ = 'r'; return put_u(p, (unsigned)r); }

// source operand: mode 0 Rn, 1 X(Rn), 2 ADDR (symbolic), 3 &ADDR, 4 @Rn, 5 @Rn+, 6 #N
struct Enc { int reg; int A; int has_ext; uint16_t ext; };
static char *emit_src(char *p, int mode, int reg, uint16_t val, int bw, uint16_t ext_addr, Enc *e)
{
  e->has_ext = 0; e->ext = 0; e->reg = reg;
  switch (mode)
  {
    case 0: p = put_reg(p, reg); e->A = 0; break;
    case 1: p = put_u(p, val); *p++ = '('; p = put_reg(p, reg); *p++ = ')'; e->A = 1; e->has_ext = 1; e->ext = val; break;
    case 2: p = put_u(p, val); e->A = 1; e->reg = 0; e->has_ext = 1; e->ext = (uint16_t)(val - ext_addr); break;
    case 3: *p++ = '&'; p = put_u(p, val); e->A = 1; e->reg = 2; e->has_ext = 1; e->ext = val; break;
    case 4: *p++ = '@'; p = put_reg(p, reg); e->A = 2; break;
    case 5: *p++ = '@'; p = put_reg(p, reg); *p++ = '+'; e->A = 3; break;
    case 6:
      *p++ = '#'; p = put_u(p, val);
      // constant generator (SLAU144 table 3-2): -1, 0, 1, 2, 4, 8 need no extension word
      {
        uint16_t v = bw ? (val & 0xff) : val; uint16_t m1 = bw ? 0xff : 0xffff;
        if (val == 0) { e->reg = 3; e->A = 0; }
        else if (val == 1) { e->reg = 3; e->A = 1; }
        else if (val == 2) { e->reg = 3; e->A = 2; }
        else if (val == 4) { e->reg = 2; e->A = 2; }
        else if (val == 8) { e->reg = 2; e->A = 3; }
        else if (v == m1 && val == m1) { e->reg = 3; e->A = 3; }
        else { e->reg = 0; e->A = 3; e->has_ext = 1; e->ext = val; }
      }
      break;
  }
  *p = 0;
  return p;
}
extern "C" void harness_main()
{
  AsmContext *c = new AsmContext();
  char *p = src;
  p = vp_append(p, ".msp430\n.org 0x8000\n  ");
  uint16_t words[3]; int nwords = 0;
#if KIND == 1   /* double operand */
  int op = OPLO + symx_fork("op", OPN);
  int bw = symx_fork("bw", 2);
  int smode = symx_fork("smode", 7), dmode = symx_fork("dmode", 4);
  int sreg = 4 + symx_fork("sreg", 3) * 5, dreg = 5 + symx_fork("dreg", 2) * 10;       // r4, r9, r14 / r5, r15
  uint16_t sval = symx_u16("sval"), dval = symx_u16("dval");
  if (smode == 6 && bw) symx_assume(sval <= 0xff);                                      // byte immediates are written 0..255
  p = vp_append(p, two_ops[op]); p = vp_append(p, bw ? ".b " : ".w ");
  Enc s, d;
  p = emit_src(p, smode, sreg, sval, bw, ORG + 2, &s);
  p = vp_append(p, ", ");
  uint16_t dext_addr = (uint16_t)(ORG + 2 + (s.has_ext ? 2 : 0));
  p = emit_src(p, dmode, dreg, dval, bw, dext_addr, &d);      // destination modes are the first four source modes
  p = vp_append(p, "\n");
  words[nwords++] = (uint16_t)(((op + 4) << 12) | (s.reg << 8) | ((d.A ? 1 : 0) << 7) | (bw << 6) | (s.A << 4) | d.reg);
  if (s.has_ext) words[nwords++] = s.ext;
  if (d.has_ext) words[nwords++] = d.ext;
#elif KIND == 2 /* single operand */
  int op = symx_fork("op", 6);
  int bw = (op == 0 || op == 2 || op == 4) ? (int)symx_fork("bw", 2) : 0;
  int smode = symx_fork("smode", 7);
  if (op != 4 && op != 5) symx_assume(smode != 6);            // an immediate cannot be a destination
  int sreg = 4 + symx_fork("sreg", 3) * 5;
  uint16_t sval = symx_u16("sval");
  if (smode == 6 && bw) symx_assume(sval <= 0xff);
  p = vp_append(p, one_ops[op]); if (op == 0 || op == 2 || op == 4) p = vp_append(p, bw ? ".b " : ".w "); else p = vp_append(p, " ");
  Enc s;
  p = emit_src(p, smode, sreg, sval, bw, ORG + 2, &s);
  p = vp_append(p, "\n");
  words[nwords++] = (uint16_t)(0x1000 | (op << 7) | (bw << 6) | (s.A << 4) | s.reg);
  if (s.has_ext) words[nwords++] = s.ext;
#elif KIND == 3 /* jumps */
  int cond = symx_fork("cond", 8);
  uint16_t target = symx_u16("target");
  int32_t dist = (int32_t)target - (ORG + 2);
  symx_assume((target & 1) == 0 && dist >= -1024 && dist <= 1022);
  p = vp_append(p, jumps[cond]); *p++ = ' '; p = put_u(p, target); p = vp_append(p, "\n");
  words[nwords++] = (uint16_t)(0x2000 | (cond << 10) | ((dist >> 1) & 0x3ff));
#endif
  symx_note_str("text", src + 21);
  int e = vp_assemble(c, src);
  symx_assert(e == 0, "a core MSP430 instruction in a documented addressing mode is accepted");
  if (e != 0) return;
  symx_assert(c->address == ORG + 2 * nwords, "instruction length is the opcode word plus one word per indexed/absolute/immediate operand");
  for (int i = 0; i < nwords; i++)
  {
    uint16_t got = (uint16_t)(c->memory.read8(ORG + 2 * i) | (c->memory.read8(ORG + 2 * i + 1) << 8));
    symx_assert(got == words[i], i == 0 ? "opcode word is the encoding the user's guide defines" : "extension word is the encoding the user's guide defines");
  }
  symx_cover("encoded");
}
