// C06: numeric operands are encoded exactly or rejected.
//  MODE 1 (range): INSTR(v) with v any 32-bit value (signed decimal spelling): accepted  =>  LO <= v <= HI
//          (LO/HI: the widest signed/unsigned reading of the instruction's field); for REL forms the
//          operand is a branch target and the predicate is on the distance.
//  MODE 3 (sweep, used by C16): any 32-bit operand value: termination, memory safety, a few bytes at most.
//  MODE 2 (injective): two values v1, v2 in [LO,HI], both accepted, not congruent modulo 2^W  =>  different bytes.
#include "asmlib.h"
#ifndef ORG
#define ORG 4096
#endif
#define STR2(x) #x
#define STR(x) STR2(x)
static char src[400];
static int assemble_one(AsmContext *c, int32_t v)
{
  char num[16]; sprintf(num, "%d", v);
  char *p = src;
  p = vp_append(p, "." CPUNAME "\n.org " STR(ORG) "\n  " PRE); p = vp_append(p, num); p = vp_append(p, POST "\n");
  return vp_assemble(c, src);
}
extern "C" void harness_main()
{
#if MODE == 1
  int32_t v = (int32_t)symx_u32("v");
  AsmContext *c = new AsmContext();
  int e = assemble_one(c, v);
  symx_note("v", (uint32_t)v); symx_note("accepted", e == 0);
  if (e != 0) { symx_cover("rejected"); return; }
  symx_cover("accepted");
#ifdef REL_BITS
  // branch target: distance from (ORG*BPA + REL_PCOFF) in units of REL_SCALE must fit REL_BITS signed bits and be a multiple of REL_SCALE
  int64_t dist = (int64_t)v * BPA - ((int64_t)ORG * BPA + REL_PCOFF);
  symx_assert(dist % REL_SCALE == 0, "a branch target that is not a multiple of the instruction unit is rejected, not truncated");
  int64_t units = dist / REL_SCALE;
  symx_assert(units >= -((int64_t)1 << (REL_BITS - 1)) && units < ((int64_t)1 << (REL_BITS - 1)), "a branch distance that does not fit the field is rejected, not wrapped");
#else
  symx_assert((int64_t)v >= (int64_t)(LO) && (int64_t)v <= (int64_t)(HI), "a value that does not fit the instruction's field is rejected, not masked into it");
#endif
#elif MODE == 3
  // robustness sweep (C16): any 32-bit value in the operand position; the assembler must come back (step budget),
  // stay inside its objects, and both passes must agree; what it emits is not judged here
  int32_t v = (int32_t)symx_u32("v");
  AsmContext *c = new AsmContext();
  int e = assemble_one(c, v);
  symx_note("v", (uint32_t)v); symx_note("accepted", e == 0);
  if (e != 0) { symx_cover("rejected"); return; }
  symx_cover("accepted");
  symx_assert(c->memory.high_address < c->memory.low_address || c->memory.high_address - c->memory.low_address < 64, "one instruction emits a few bytes");
#else
  int32_t v1 = (int32_t)symx_u32("v1"), v2 = (int32_t)symx_u32("v2");
  symx_assume((int64_t)v1 >= (int64_t)(LO) && (int64_t)v1 <= (int64_t)(HI) && (int64_t)v2 >= (int64_t)(LO) && (int64_t)v2 <= (int64_t)(HI));
  symx_assume(((uint32_t)(v1 - v2) & (uint32_t)((W >= 32) ? 0xffffffffu : ((1u << W) - 1))) != 0);
  AsmContext *c1 = new AsmContext(), *c2 = new AsmContext();
  int e1 = assemble_one(c1, v1);
  if (e1 != 0) { symx_cover("rejected"); return; }
  int e2 = assemble_one(c2, v2);
  if (e2 != 0) { symx_cover("rejected"); return; }
  symx_cover("both-accepted");
  int n1 = c1->address - ORG * BPA, n2 = c2->address - ORG * BPA;
  int differ = n1 != n2;
  for (int i = 0; i < n1 && i < 16; i++) differ |= c1->memory.read8(ORG * BPA + i) != c2->memory.read8(ORG * BPA + i);
  symx_assert(differ, "two accepted operand values that are not spellings of the same field value produce different encodings");
#endif
}
