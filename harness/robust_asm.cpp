// C16: naken_asm's real main() on structured hostile sources: over-long tokens, strings, macro bodies/arguments,
// deep nesting/recursion, extreme directive operands.  The length/depth is chosen by the engine from LENGTHS;
// every load/store is bounds-checked by the engine, the step budget bounds termination, and the run must end
// with status 0 or 1 (1 with a diagnostic).
#include "symx.h"
#include <string.h>
#include <stdio.h>
#include <stdlib.h>
extern int naken_asm_main(int argc, char *argv[]);
static char *prog; static size_t plen, pcap;
static char out[16384];
static void put(const char *s) { size_t n = strlen(s); memcpy(prog + plen, s, n); plen += n; prog[plen] = 0; }
static void rep(char c, int n) { memset(prog + plen, c, n); plen += n; prog[plen] = 0; }
static int contains(const char *hay, long n, const char *needle)
{
  long m = strlen(needle);
  for (long i = 0; i + m <= n; i++) if (memcmp(hay + i, needle, m) == 0) return 1;
  return 0;
}
static void verdict(int status)
{
  long n = symx_file_get("<stdout>", out, sizeof(out) - 1);
  if (n < 0) n = 0;
  int diag = contains(out, n, "rror") || contains(out, n, "Cannot") || contains(out, n, "Unknown") || contains(out, n, "too ");
  symx_note("status", status); symx_note("diag", diag);
  symx_assert(status == 0 || status == 1, "naken_asm ends with exit status 0 or 1");
  if (status != 0) symx_assert(diag, "a non-zero exit status comes with a diagnostic");
  symx_cover(status == 0 ? "accepted" : "rejected");
}
static void on_exit_hook(int status) { verdict(status); }
static const int lengths[] = { LENGTHS };
extern "C" void harness_main()
{
  int L = lengths[symx_fork("len", sizeof(lengths) / sizeof(lengths[0]))];
  symx_note("L", L);
  pcap = (size_t)L * 24 + 8192; prog = (char *)malloc(pcap); plen = 0; prog[0] = 0;
  put(".msp430\n.org 0x100\n");
#if FAMILY == 1      /* over-long identifier as instruction, label and operand */
  int where = symx_fork("where", 3);
  if (where == 0) { rep('a', L); put(" r4\n"); }
  if (where == 1) { rep('a', L); put(":\n  nop\n"); }
  if (where == 2) { put("  mov.w #"); rep('a', L); put(", r4\n"); }
#elif FAMILY == 2    /* over-long numbers */
  int kind = symx_fork("kind", 3);
  put(".dc32 "); if (kind == 1) put("0x"); rep(kind == 2 ? '1' : '7', L); if (kind == 2) put("b"); put("\n");
#elif FAMILY == 3    /* over-long quoted string / ticked string, terminated and unterminated */
  int kind = symx_fork("kind", 4);
  put(kind < 2 ? ".db \"" : ".db '"); rep('s', L); if (kind == 0) put("\""); if (kind == 2) put("'"); put("\n.db 1\n");
#elif FAMILY == 4    /* comments: long, unterminated block comment */
  int kind = symx_fork("kind", 3);
  if (kind == 0) { put("; "); rep('c', L); put("\n.db 1\n"); }
  if (kind == 1) { put("/* "); rep('c', L); put(" */ .db 1\n"); }
  if (kind == 2) { put("/* "); rep('c', L); put("\n.db 1\n"); }
#elif FAMILY == 5    /* macro body / define value length */
  int kind = symx_fork("kind", 2);
  if (kind == 0) { put(".macro BIG\n  .db 1"); for (int i = 0; i < L / 4; i++) put(", 1"); put("\n.endm\nBIG\n"); }
  if (kind == 1) { put(".define BIG "); rep('1', L); put("\n.dc64 BIG\n"); }
#elif FAMILY == 6    /* macro argument length and count */
  int kind = symx_fork("kind", 3);
  if (kind == 0) { put(".macro M(a)\n .db a\n.endm\nM("); rep('1', L); put(")\n"); }
  if (kind == 1) { put(".macro M(a)\n .db 1\n.endm\nM(1"); for (int i = 0; i < L; i++) put(",1"); put(")\n"); }
  if (kind == 2) { put(".macro "); rep('N', L); put("(a)\n .db a\n.endm\n"); rep('N', L); put("(1)\n"); }
#elif FAMILY == 7    /* nesting: mutually recursive defines, nested macro invocations */
  int kind = symx_fork("kind", 2);
  if (kind == 0) { put(".define A B\n.define B A\n.db A\n"); }
  if (kind == 1) { for (int i = 0; i < L; i++) { char b[64]; sprintf(b, ".define D%d D%d\n", i, i + 1); put(b); } { char b[64]; sprintf(b, ".define D%d 7\n.db D0\n", L); put(b); } }
#elif FAMILY == 8    /* expression nesting depth */
  put(".dc32 "); rep('(', L); put("1"); rep(')', L); put("\n");
#elif FAMILY == 9    /* extreme directive operands */
  int kind = symx_fork("kind", 8);
  static const char *t[8] = { ".align 0\n.db 1\n", ".align_bytes 0\n.db 1\n", ".align -8\n.db 1\n", ".resb -1\n.db 1\n", ".org 0xfffffffe\n.db 1, 2\n", ".org 0x7fffffff\n.dc32 1\n", ".align 3\n.db 1\n", ".resw 0x7fffffff\n.db 1\n" };
  put(t[kind]);
#elif FAMILY == 12   /* image wrapping around the end of the 32 bit address space */
  put(".org 0xffffffff\n.db 1, 2\n");
#elif FAMILY == 10   /* many operands */
  put("  mov.w r4"); for (int i = 0; i < L; i++) put(", r5"); put("\n");
#elif FAMILY == 13   /* include recursion: a file that includes itself, two files that include each other */
  { int kind = symx_fork("kind", 2);
    if (kind == 0) put(".include \"in.asm\"\n");
    else { put(".include \"other.inc\"\n"); symx_file_put("other.inc", ".include \"in.asm\"\n", 18); } }
#elif FAMILY == 14   /* a run of prefix operators */
  { int kind = symx_fork("kind", 3);
    put(kind == 2 ? "  mov.w #" : ".db "); rep(kind == 1 ? '~' : '-', L); put(kind == 2 ? "1, r4\n" : "1\n"); }
#elif FAMILY == 15   /* a run of backslashes / escapes inside quoted text */
  { int kind = symx_fork("kind", 4);
    if (kind == 0) { put(".macro M(a)\n .db a\n.endm\nM(\""); rep('\\', L); put("\")\n"); }
    if (kind == 1) { put(".ascii \""); rep('\\', L); put("\"\n"); }
    if (kind == 2) { put(".define D \""); rep('\\', L); put("\"\n.ascii D\n"); }
    if (kind == 3) { put(".ascii \""); for (int i = 0; i < L / 2; i++) put("\\n"); put("\"\n"); } }
#elif FAMILY == 11   /* conditional nesting depth */
  for (int i = 0; i < L; i++) put(".if 1\n"); put(".db 1\n"); for (int i = 0; i < L; i++) put(".endif\n");
#endif
  symx_file_put("in.asm", prog, plen);
  symx_capture_stdout(1);
  symx_on_exit(on_exit_hook);
  static char a0[] = "naken_asm", a1[] = "-o", a2[] = "out.hex", a5[] = "in.asm";
  char *argv[6] = { a0, a1, a2, a5, 0 };
  int status = naken_asm_main(4, argv);
  verdict(status);
}
