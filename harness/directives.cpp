// C05: data / location directives through the real two-pass assembler on an in-memory source.
// MODE selects the directive family; values are symbolic and rendered into the source text in decimal
// (exact digits), so the real tokenizer, eval_expression and directive handler run on them.
#include "asmlib.h"
#ifndef CPUNAME
#define CPUNAME "msp430"
#endif
#ifndef BPA
#define BPA 1            /* bytes per address of CPUNAME */
#endif
static char src[600];
static char *put_s32(char *p, int32_t v) { p += sprintf(p, "%d", v); return p; }
static char *put_u32(char *p, uint32_t v) { p += sprintf(p, "%u", v); return p; }
static char *put_s64(char *p, int64_t v) { p += sprintf(p, "%lld", (long long)v); return p; }

static uint32_t pick_org()
{
  // byte address where the data starts: start of memory, just below a 64 KiB page boundary, and a high address
  uint32_t k = symx_fork("org", 3);
  return k == 0 ? 0x20 : k == 1 ? 0xffff : 0x12fffe;
}
static int untouched(AsmContext *c, uint32_t a) { return c->memory.read_debug(a) == DL_EMPTY; }

extern "C" void harness_main()
{
  AsmContext *c = new AsmContext();
  uint32_t org = pick_org();             // in bytes
  if (BPA > 1) org &= ~(uint32_t)(BPA - 1);
  int big = symx_fork("endian", 2);
  char *p = src;
  p = vp_append(p, "." CPUNAME "\n");
  if (big) p = vp_append(p, ".big_endian\n"); else p = vp_append(p, ".little_endian\n");
  p = vp_append(p, ".org "); p = put_u32(p, org / BPA); p = vp_append(p, "\n");
  symx_note("org", org); symx_note("big", big);

#if MODE == 1   /* .db a, b */
  int32_t a = (int32_t)symx_u32("a"), b = (int32_t)symx_u32("b");
  p = vp_append(p, DIRECTIVE " "); p = put_s32(p, a); p = vp_append(p, ", "); p = put_s32(p, b); p = vp_append(p, "\n");
  int e = vp_assemble(c, src);
  int ok = a >= -128 && a <= 255 && b >= -128 && b <= 255;
  if (!ok) { symx_cover("db-reject"); symx_assert(e != 0, ".db value outside -128..255 is rejected"); return; }
  symx_cover("db-accept");
  symx_assert(e == 0, ".db with values in range is accepted");
  if (e != 0) return;
  symx_assert(c->memory.read8(org) == (uint8_t)a && c->memory.read8(org + 1) == (uint8_t)b, ".db places its bytes in order at the location counter");
  symx_assert(c->address == (int)(org + 2), ".db advances the location counter by the bytes placed");
  symx_assert(untouched(c, org - 1) && untouched(c, org + 2), ".db writes nothing else");
  symx_assert(c->memory.read_debug(org) == DL_DATA && c->memory.read_debug(org + 1) == DL_DATA, ".db bytes are marked as data");
  symx_assert(c->memory.low_address == org && c->memory.high_address == org + 1, "low/high address bracket exactly the bytes written");
#elif MODE == 2  /* .dw / .dc16 a, b */
  int32_t a = (int32_t)symx_u32("a"), b = (int32_t)symx_u32("b");
  p = vp_append(p, DIRECTIVE " "); p = put_s32(p, a); p = vp_append(p, ", "); p = put_s32(p, b); p = vp_append(p, "\n");
  int e = vp_assemble(c, src);
  int ok = a >= -32768 && a <= 65535 && b >= -32768 && b <= 65535;
  if (!ok) { symx_cover("dw-reject"); symx_assert(e != 0, ".dw value outside -32768..65535 is rejected"); return; }
  symx_cover("dw-accept");
  symx_assert(e == 0, ".dw with values in range is accepted");
  if (e != 0) return;
  uint16_t v[2] = { (uint16_t)a, (uint16_t)b };
  for (int i = 0; i < 2; i++)
  {
    uint8_t lo = c->memory.read8(org + 2 * i + (big ? 1 : 0)), hi = c->memory.read8(org + 2 * i + (big ? 0 : 1));
    symx_assert(lo == (v[i] & 0xff) && hi == (v[i] >> 8), ".dw places 16-bit values in the selected byte order");
  }
  symx_assert(c->address == (int)(org + 4), ".dw advances the location counter by 2 per value");
  symx_assert(untouched(c, org - 1) && untouched(c, org + 4), ".dw writes nothing else");
#elif MODE == 3  /* .dl / .dc32 / .dd a */
  uint32_t a = symx_u32("a");
  p = vp_append(p, DIRECTIVE " "); p = put_s64(p, (int64_t)(int32_t)a); p = vp_append(p, ", "); p = put_u32(p, a); p = vp_append(p, "\n");
  int e = vp_assemble(c, src);
  symx_assert(e == 0, ".dc32 accepts any 32-bit value (signed or unsigned spelling)");
  if (e != 0) return;
  for (int k = 0; k < 2; k++)
    for (int i = 0; i < 4; i++)
    {
      uint8_t got = c->memory.read8(org + 4 * k + i);
      uint8_t want = (uint8_t)(a >> (8 * (big ? 3 - i : i)));
      symx_assert(got == want, ".dc32 places 32-bit values in the selected byte order");
    }
  symx_assert(c->address == (int)(org + 8), ".dc32 advances the location counter by 4 per value");
  symx_assert(untouched(c, org - 1) && untouched(c, org + 8), ".dc32 writes nothing else");
#elif MODE == 4  /* .dc64 / .dq a */
  uint64_t a = symx_u64("a");
  p = vp_append(p, DIRECTIVE " "); p = put_s64(p, (int64_t)a); p = vp_append(p, "\n");
  int e = vp_assemble(c, src);
  symx_assert(e == 0, ".dc64 accepts any 64-bit value");
  if (e != 0) return;
  for (int i = 0; i < 8; i++)
  {
    uint8_t got = c->memory.read8(org + i);
    uint8_t want = (uint8_t)(a >> (8 * (big ? 7 - i : i)));
    symx_assert(got == want, ".dc64 places 64-bit values in the selected byte order");
  }
  symx_assert(c->address == (int)(org + 8), ".dc64 advances the location counter by 8");
  symx_assert(untouched(c, org - 1) && untouched(c, org + 8), ".dc64 writes nothing else");
#elif MODE == 5  /* .resb/.resw n ; .db marker ; also label and $ */
  // the reservation count is an address offset: concrete classes (a symbolic count makes every later
  // Memory access symbolic-addressed, which the engine cannot finish): none, one, odd, beyond a 64 KiB page
  static const uint32_t counts[4] = { 0, 1, 37, 70001 };
  uint32_t n = counts[symx_fork("n", 4)];
  p = vp_append(p, "first: " DIRECTIVE " "); p = put_u32(p, n); p = vp_append(p, "\nafter: .db 0x5a\n.dc32 $, first, after\n");
  int e = vp_assemble(c, src);
  symx_assert(e == 0, "reserve + data is accepted");
  if (e != 0) return;
  uint32_t at = org + n * RESSIZE;
  symx_assert(c->memory.read8(at) == 0x5a && c->memory.read_debug(at) == DL_DATA, "data after a reservation is placed right after the reserved bytes");
  symx_assert(untouched(c, at - 1) || n == 0, "reserved bytes are not written");
  uint32_t w[3];
  for (int k = 0; k < 3; k++) { w[k] = 0; for (int i = 0; i < 4; i++) w[k] |= (uint32_t)c->memory.read8(at + 1 + 4 * k + i) << (8 * (big ? 3 - i : i)); }
  symx_assert(w[0] == (at + 1) / BPA, "$ equals the address of the next byte to be placed");
  symx_assert(w[1] == org / BPA, "a label equals the address of what follows it");
  symx_assert(w[2] == at / BPA, "a label after a reservation equals the address of the data that follows");
#elif MODE == 6  /* .align_bytes / .align (bits) with ALIGNV, after an odd number of bytes */
  uint32_t k = symx_u32("k");
  symx_assume(k >= 1 && k <= 40);
  p = vp_append(p, ".resb "); p = put_u32(p, k); p = vp_append(p, "\n" DIRECTIVE " " ALIGNTXT "\n.db 0x5a\n");
  int e = vp_assemble(c, src);
  symx_assert(e == 0, "align is accepted");
  if (e != 0) return;
  uint32_t at = org + k;
  at = (at + (ALIGNBYTES - 1)) & ~(uint32_t)(ALIGNBYTES - 1);
  symx_assert(c->memory.read8(at) == 0x5a && c->memory.read_debug(at) == DL_DATA, "data after an alignment directive is placed at the next multiple of the alignment");
  symx_assert(c->address == (int)(at + 1), "location counter after align + one byte");
#elif MODE == 7  /* .ascii / .asciiz "xyz" with symbolic letters, then a value */
  char s3[3]; for (int i = 0; i < 3; i++) { s3[i] = (char)symx_u8("ch"); symx_assume(s3[i] >= 'a' && s3[i] <= 'z'); }
  p = vp_append(p, DIRECTIVE " \""); *p++ = s3[0]; *p++ = s3[1]; *p++ = s3[2]; *p = 0; p = vp_append(p, "\", 7\n");
  int e = vp_assemble(c, src);
  symx_assert(e == 0, "string data is accepted");
  if (e != 0) return;
  symx_assert(c->memory.read8(org) == (uint8_t)s3[0] && c->memory.read8(org + 1) == (uint8_t)s3[1] && c->memory.read8(org + 2) == (uint8_t)s3[2], "string bytes are placed in order");
  symx_assert(c->memory.read8(org + 3 + ZTERM) == 7, "the value after the string follows it (after the terminator for .asciiz)");
  if (ZTERM) symx_assert(c->memory.read8(org + 3) == 0 && c->memory.read_debug(org + 3) == DL_DATA, ".asciiz appends a NUL");
  symx_assert(c->address == (int)(org + 4 + ZTERM), "location counter after the string and one value");
#elif MODE == 8  /* .org backwards / overlapping: later data overwrites, location counter follows .org */
  uint32_t a = symx_u32("a"); symx_assume(a <= 255);
  uint32_t b = symx_u32("b"); symx_assume(b <= 255);
  p = vp_append(p, ".db "); p = put_u32(p, a); p = vp_append(p, ", 1, 2, 3\n.org "); p = put_u32(p, org / BPA); p = vp_append(p, "\n.db "); p = put_u32(p, b); p = vp_append(p, "\n");
  int e = vp_assemble(c, src);
  symx_assert(e == 0, "overlapping .org is accepted");
  if (e != 0) return;
  symx_assert(c->memory.read8(org) == (uint8_t)b, "data placed after a backwards .org overwrites the earlier byte");
  symx_assert(c->memory.read8(org + 1) == 1 && c->memory.read8(org + 3) == 3, "other bytes keep their values");
  symx_assert(c->address == (int)(org + 1), "location counter follows the last .org");
  symx_assert(c->memory.low_address == org && c->memory.high_address == org + 3, "low/high address bracket everything written");
#endif
}
