// C01(a,b) from the assembler side: INSTR(v) with v symbolic -> bytes B -> disasm -> text -> assemble -> B2.
// Asserts: the disassembler consumes exactly |B| bytes, and if the assembler accepts the disassembly, B2 == B.
#include "asmlib.h"
#include DISASM_HDR
#ifndef ORG
#define ORG 4096
#endif
#ifndef FLAGS
#define FLAGS 0
#endif
#define STR2(x) #x
#define STR(x) STR2(x)
static char src[400], src2[400];
extern "C" void harness_main()
{
  int32_t v = (int32_t)symx_u32("v");
#ifdef VLO
  symx_assume((int64_t)v >= (int64_t)(VLO) && (int64_t)v <= (int64_t)(VHI));
#endif
  char num[16]; sprintf(num, "%d", v);
  char *p = src;
  p = vp_append(p, "." CPUNAME "\n.org " STR(ORG) "\n  " PRE); p = vp_append(p, num); p = vp_append(p, POST "\n");
  AsmContext *c1 = new AsmContext();
  int e1 = vp_assemble(c1, src);
  if (e1 != 0) { symx_cover("rejected"); return; }
  symx_cover("accepted");
  const uint32_t base = ORG * BPA;
  int n1 = c1->address - (int)base;
  symx_note("v", (uint32_t)v); symx_note("len", n1);
  char text[128]; int cmin = 0, cmax = 0;
  int d = DISASM_FN(&c1->memory, base, text, sizeof(text), FLAGS, &cmin, &cmax);
  symx_assert(d == n1, "walking the disassembler over the emitted bytes consumes exactly the bytes emitted");
  { int L = (int)strlen(text); if (L > 3 && text[L - 1] == ')') { int k = L - 2; while (k > 0 && !(text[k] == '(' && text[k - 1] == ' ')) k--; if (k > 0) { k--; while (k > 0 && text[k - 1] == ' ') k--; text[k] = 0; } } }
  symx_note_str("T", text);
  p = src2; p = vp_append(p, "." CPUNAME "\n.org " STR(ORG) "\n  "); p = vp_append(p, text); p = vp_append(p, "\n");
  AsmContext *c2 = new AsmContext();
  int e2 = vp_assemble(c2, src2);
  if (e2 != 0) { symx_cover("disassembly-not-accepted"); return; }
  int n2 = c2->address - (int)base;
  symx_assert(n2 == n1, "re-assembling the disassembly yields the same number of bytes");
  if (n2 != n1) return;
  int same = 1;
  for (int i = 0; i < n1 && i < 16; i++) same &= c1->memory.read8(base + i) == c2->memory.read8(base + i);
  symx_assert(same, "encode -> decode -> encode reproduces exactly the same bytes");
  symx_cover("fixpoint");
}
