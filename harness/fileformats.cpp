// C03: every output format carries exactly the image.  FORMAT: 1 hex, 2 srec (SRECSIZE 0/1/2), 3 bin, 4 wdc
// The image: two segments (3 and 2 bytes, or one 20-byte run) at a base chosen from boundary classes; NSYM of the
// data bytes are symbolic.  The real writer runs into an in-memory file, an independent decoder written from the
// format specification decodes it, and the real reader loads it back.
#include "symx.h"
#include <string.h>
#include <stdio.h>
#include "core/Memory.h"
#include "core/cpu_list.h"
#include "fileio/write_hex.h"
#include "fileio/write_srec.h"
#include "fileio/write_bin.h"
#include "fileio/write_wdc.h"
#include "fileio/read_hex.h"
#include "fileio/read_srec.h"
#include "fileio/read_bin.h"
#include "fileio/read_wdc.h"
#ifndef NSYM
#define NSYM 2
#endif
#define MAXIMG 32
static uint32_t img_addr[MAXIMG]; static uint8_t img_val[MAXIMG]; static int img_n;
static uint32_t dec_addr[64]; static uint8_t dec_val[64]; static int dec_n;
static uint8_t file[4096]; static long flen;

static int hv(uint8_t c) { return (c & 0xf) + ((c >> 6) * 9); }                 // branch-free hex digit value
static int is_hex(uint8_t c) { return (c >= '0' && c <= '9') | (c >= 'A' && c <= 'F') | (c >= 'a' && c <= 'f'); }
static int hex2(long p) { symx_assert(is_hex(file[p]) & is_hex(file[p + 1]), "file contains only hex digits where the format requires them"); return hv(file[p]) * 16 + hv(file[p + 1]); }

static void build_image(Memory *m)
{
  static const uint32_t bases[6] = { 0x0000, 0xfffe, 0x12345, 0xfffffe, 0x7ffffffd, 0xfffffff0 };
  uint32_t base = bases[symx_fork("base", NBASES)];
  int layout = symx_fork("layout", 3);
  img_n = 0;
  int sym = 0;
  // code bytes carry the number of the source line that emitted them (any line of a source file: 1 .. INT_MAX-1);
  // the writers use the same per-byte field to tell written from never-written bytes
  uint32_t line = symx_u32("line");
  symx_assume(line >= 1 && line <= 0x7ffffffeu);
  if (layout < 2)
  {
    uint32_t gap = layout == 0 ? 1 : 21;
    for (int i = 0; i < 3; i++) img_addr[img_n++] = base + i;
    for (int i = 0; i < 2; i++) img_addr[img_n++] = base + 3 + gap + i;
  }
  else
  {
    for (int i = 0; i < 20; i++) img_addr[img_n++] = base + i;
  }
  for (int i = 0; i < img_n; i++)
  {
    // symbolic bytes are spread: first, last, middle...
    int want_sym = (i == 0 || i == img_n - 1 || i == 2 || i == 3) && sym < NSYM;
    if (want_sym) { img_val[i] = symx_u8("d"); sym++; } else img_val[i] = (uint8_t)(0xa1 + 7 * i);
    m->write(img_addr[i], img_val[i], (i & 1) ? (int)line : DL_DATA);
  }
  symx_note("base", base); symx_note("layout", layout);
}

static void check_decoded()
{
  symx_assert(dec_n == img_n, "decoded file contains exactly as many data bytes as the image");
  if (dec_n != img_n) return;
  for (int i = 0; i < img_n; i++)
  {
    int found = -1;
    for (int k = 0; k < dec_n; k++) if (dec_addr[k] == img_addr[i]) { found = k; break; }
    symx_assert(found >= 0, "every image byte appears in the file at its address");
    if (found >= 0) symx_assert(dec_val[found] == img_val[i], "file carries the assembled byte value at its address");
  }
}

extern "C" void harness_main()
{
  Memory *m = new Memory();
#ifdef BIGENDIAN
  m->endian = ENDIAN_BIG;
#endif
  build_image(m);
  FILE *out = fopen("out.img", "wb");
  symx_assume(out != 0);
#if FORMAT == 1
  write_hex(m, out);
#elif FORMAT == 2
  write_srec(m, out, SRECSIZE);
#elif FORMAT == 3
  write_bin(m, out);
#elif FORMAT == 4
  write_wdc(m, out);
#endif
  fclose(out);
  flen = symx_file_get("out.img", file, sizeof(file) - 1);
  symx_assert(flen > 0 && flen < (long)sizeof(file) - 1, "writer produced a file");
  file[flen] = 0;
  dec_n = 0;
#if FORMAT == 1
  // Intel HEX: ":LLAAAATT<data>CC\n"; type 00 data, 01 EOF, 04 extended linear address, 02 extended segment address
  long p = 0; uint32_t upper = 0; int saw_eof = 0;
  while (p < flen)
  {
    symx_assert(file[p] == ':', "each record starts with ':'");
    if (file[p] != ':') return;
    int ll = hex2(p + 1), ah = hex2(p + 3), al = hex2(p + 5), tt = hex2(p + 7);
    int sum = ll + ah + al + tt;
    long q = p + 9;
    symx_assert(!saw_eof, "no record follows the EOF record");
    if (tt == 0)
    {
      uint32_t a = upper + (uint32_t)(ah * 256 + al);
      for (int i = 0; i < ll; i++) { int v = hex2(q); q += 2; sum += v; if (dec_n < 64) { symx_assert(((a & 0xffff) + i) <= 0xffff, "a data record does not run past its 64 KiB segment"); dec_addr[dec_n] = a + i; dec_val[dec_n] = (uint8_t)v; dec_n++; } }
    }
    else if (tt == 4) { symx_assert(ll == 2, "type 04 record has two data bytes"); int h = hex2(q), l = hex2(q + 2); q += 4; sum += h + l; upper = ((uint32_t)h << 24) | ((uint32_t)l << 16); }
    else if (tt == 2) { int h = hex2(q), l = hex2(q + 2); q += 4; sum += h + l; upper = ((uint32_t)(h * 256 + l)) << 4; }
    else if (tt == 1) { saw_eof = 1; symx_assert(ll == 0, "EOF record is empty"); }
    else { for (int i = 0; i < ll; i++) { sum += hex2(q); q += 2; } }
    int cc = hex2(q); q += 2;
    symx_assert(((sum + cc) & 0xff) == 0, "record checksum is valid");
    symx_assert(file[q] == '\n', "record ends with a newline");
    p = q + 1;
  }
  symx_assert(saw_eof, "file ends with an EOF record");
  check_decoded();
#elif FORMAT == 2
  long p = 0; int saw_term = 0;
  while (p < flen)
  {
    symx_assert(file[p] == 'S', "each record starts with 'S'");
    if (file[p] != 'S') return;
    int type = file[p + 1] - '0';
    int count = hex2(p + 2);
    int alen = (type == 1 || type == 0 || type == 9 || type == 5) ? 2 : (type == 2 || type == 8) ? 3 : 4;
    long q = p + 4; int sum = count; uint32_t a = 0;
    for (int i = 0; i < alen; i++) { int v = hex2(q); q += 2; sum += v; a = (a << 8) | (uint32_t)v; }
    int ndata = count - alen - 1;
    symx_assert(ndata >= 0, "record count covers address and checksum");
    for (int i = 0; i < ndata; i++)
    {
      int v = hex2(q); q += 2; sum += v;
      if (type >= 1 && type <= 3 && dec_n < 64) { dec_addr[dec_n] = a + i; dec_val[dec_n] = (uint8_t)v; dec_n++; }
    }
    int cc = hex2(q); q += 2;
    symx_assert(((sum + cc) & 0xff) == 0xff, "record checksum is valid");
    if (type >= 7) saw_term = 1;
    symx_assert(file[q] == '\n', "record ends with a newline");
    p = q + 1;
  }
  check_decoded();
#elif FORMAT == 3
  // raw binary: bytes from the lowest to the highest address, gaps zero
  uint32_t lo = img_addr[0], hi = img_addr[img_n - 1];
  symx_assert((uint32_t)flen == hi - lo + 1, "bin file spans lowest to highest address");
  if ((uint32_t)flen != hi - lo + 1) return;
  for (long i = 0; i < flen; i++)
  {
    int k = -1; for (int j = 0; j < img_n; j++) if (img_addr[j] == lo + (uint32_t)i) k = j;
    if (k >= 0) symx_assert(file[i] == img_val[k], "bin file carries the byte at its offset");
    else symx_assert(file[i] == 0, "unwritten gaps are zero in a bin file");
  }
#elif FORMAT == 4
  // WDC: 'Z' then records: 24-bit address, 24-bit length (little endian), data
  symx_assert(file[0] == 'Z', "WDC file starts with Z");
  long p = 1;
  while (p + 6 <= flen)
  {
    uint32_t a = file[p] | (file[p + 1] << 8) | (file[p + 2] << 16);
    uint32_t l = file[p + 3] | (file[p + 4] << 8) | (file[p + 5] << 16);
    p += 6;
    symx_assert(l > 0 && p + (long)l <= flen, "record length stays inside the file");
    if (!(l > 0 && p + (long)l <= flen)) return;
    for (uint32_t i = 0; i < l; i++) if (dec_n < 64) { dec_addr[dec_n] = a + i; dec_val[dec_n] = file[p + i]; dec_n++; }
    p += l;
  }
  symx_assert(p == flen, "no trailing bytes");
  check_decoded();
#endif
  symx_cover("decoded");
#ifdef READBACK
  Memory *m2 = new Memory();
#if FORMAT == 1
  int r = read_hex("out.img", m2);
#elif FORMAT == 2
  int r = read_srec("out.img", m2);
#elif FORMAT == 3
  int r = read_bin("out.img", m2, img_addr[0]);
#elif FORMAT == 4
  int r = read_wdc("out.img", m2);
#endif
  symx_assert(r >= 0, "the reader accepts the file the writer produced");
  if (r < 0) return;
  for (int i = 0; i < img_n; i++) symx_assert(m2->read8(img_addr[i]) == img_val[i], "loading the file back reproduces the image");
  symx_cover("readback");
#endif
}
