// C12: naken_asm's real main(): exit status, diagnostics and output file agree.
// A small valid program gets one symbolic single-character corruption (position chosen by the engine,
// replacement character symbolic over a set of classes); the whole main() runs on the in-memory file system.
#include "symx.h"
#include <string.h>
#include <stdio.h>
extern int naken_asm_main(int argc, char *argv[]);
#ifndef PROGRAM
#define PROGRAM ".msp430\n.org 0x100\nstart:\n  mov.w #5, r4\n  .db 1, 2\n  jmp start\n"
#endif
#ifndef OUTTYPE
#define OUTTYPE "-type", "hex"
#endif
static char prog[512];
static char out[8192];
static int contains(const char *hay, long n, const char *needle)
{
  long m = strlen(needle);
  for (long i = 0; i + m <= n; i++) if (memcmp(hay + i, needle, m) == 0) return 1;
  return 0;
}
static void verdict(int status)
{
  long n = symx_file_get("<stdout>", out, sizeof(out) - 1);
  if (n < 0) n = 0;
  int diag = contains(out, n, "Error") || contains(out, n, "error") || contains(out, n, "Cannot") || contains(out, n, "Unknown");
  long osz = symx_file_size("out.hex");
  symx_note("status", status); symx_note("diag", diag); symx_note("outsize", (uint64_t)osz);
  if (status == 0)
  {
    symx_cover("success");
    symx_assert(!diag, "exit status 0 only when no error diagnostic was printed");
    symx_assert(osz > 0, "exit status 0 only with a written output file");
  }
  else
  {
    symx_cover("failure");
    symx_assert(osz < 0, "a failed assembly leaves no file at the output path (not even a stale one)");
  }
  if (diag) symx_assert(status != 0, "an error diagnostic implies a non-zero exit status");
}
static void on_exit_hook(int status) { verdict(status); }

extern "C" void harness_main()
{
  strcpy(prog, PROGRAM);
  int len = strlen(prog);
#ifndef NO_CORRUPTION
  int pos = symx_fork("pos", len);
  uint8_t ch = symx_u8("ch");
  // replacement classes: letter, digit, space, newline, punctuation used by the syntax, quote, NUL-free garbage
  symx_assume(ch == 'x' || ch == '7' || ch == ' ' || ch == '\n' || ch == '#' || ch == ',' || ch == '.' || ch == ':' || ch == '"' || ch == '(' || ch == '\'' || ch == ';' || ch == '$' || ch == '/' || ch == '*' || ch == 0x80);
  symx_assume(ch != (uint8_t)prog[pos]);
  prog[pos] = (char)ch;
  symx_note("pos", pos);
#endif
  symx_file_put("in.asm", prog, len);
  symx_file_put("out.hex", "stale", 5);
  symx_capture_stdout(1);
  symx_on_exit(on_exit_hook);
  static char a0[] = "naken_asm", a1[] = "-o", a2[] = "out.hex", a5[] = "in.asm";
  static const char *extra[] = { OUTTYPE };
  char *argv[10]; int argc = 0;
  argv[argc++] = a0; argv[argc++] = a1; argv[argc++] = a2;
  for (unsigned i = 0; i < sizeof(extra) / sizeof(extra[0]); i++) argv[argc++] = (char *)extra[i];
#ifdef LISTING
  static char al[] = "-l"; argv[argc++] = al;
#endif
  argv[argc++] = a5; argv[argc] = 0;
  int status = naken_asm_main(argc, argv);
  verdict(status);
}
