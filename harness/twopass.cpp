// C02: labels keep their pass-1 address in pass 2 for variable-length instruction forms.
// Template:   .set back=V / INSTR(back) / l1: .db 0x5a / INSTR(fwd) / l2: .db 0xa5 / .dc16|.dc32 l1, l2 / .set fwd=W
// V and W are symbolic; 'back' is known in pass 1, 'fwd' is not.  The data markers show where pass 2 really placed
// what follows each label; the label values come from pass 1.
#include "asmlib.h"
#ifndef ORG
#define ORG 0x200
#endif
#define STR2(x) #x
#define STR(x) STR2(x)
static char src[900];
static int find_marker(AsmContext *c, uint32_t from, uint8_t val)
{
  for (uint32_t a = from; a < from + 64; a++) if (c->memory.read_debug(a) == DL_DATA && c->memory.read8(a) == val) return (int)a;
  return -1;
}
extern "C" void harness_main()
{
  AsmContext *c = new AsmContext();
#ifdef OPTIMIZE
  c->optimize = true;
#endif
  uint32_t V = symx_u32("V"), W = symx_u32("W");
  symx_assume(V <= VMAX && W <= VMAX);
  char A[12], B[12]; sprintf(A, "%u", V); sprintf(B, "%u", W);
  char *p = src;
  p = vp_append(p, "." CPUNAME "\n.org " STR(ORG) "\n.set back="); p = vp_append(p, A);
  p = vp_append(p, "\n  " PRE "back" POST "\nl1: .db 0x5a\n  " PRE "fwd" POST "\nl2: .db 0xa5\n.set fwd="); p = vp_append(p, B); p = vp_append(p, "\n");
  int e = vp_assemble(c, src);
  symx_note("accepted", e == 0);
  if (e != 0) { symx_cover("rejected"); return; }      // value not encodable in this form: C06's subject
  symx_cover("accepted");
  uint32_t l1 = 0, l2 = 0;
  symx_assert(c->symbols.lookup("l1", &l1) == 0 && c->symbols.lookup("l2", &l2) == 0, "labels are defined");
  int m1 = find_marker(c, ORG * BPA, 0x5a);
  symx_assert(m1 >= 0, "first marker byte is in the image");
  if (m1 < 0) return;
  int m2 = find_marker(c, m1 + 1, 0xa5);
  symx_assert(m2 >= 0, "second marker byte is in the image");
  if (m2 < 0) return;
  symx_note("l1", l1); symx_note("m1", m1); symx_note("l2", l2); symx_note("m2", m2);
  symx_assert((uint32_t)m1 == l1 * BPA, "label after an instruction with a known (backward) operand is where pass 2 places the following data");
  symx_assert((uint32_t)m2 == l2 * BPA, "label after an instruction with a forward-referenced operand is where pass 2 places the following data");
  symx_assert(c->address == m2 + 1, "location counter at the end of pass 2 agrees with the image");
}
