// C04(c): literal notations.  ".dc64 <literal>" goes through the real tokenizer (tokens_get post-processing of
// hex/binary/octal/char literals), eval_expression and parse_dc64; the digits are symbolic and the emitted
// 8 bytes are compared with the value of the notation.
//   NOTATION 1: 0x + 16 hex digits     2: 16 hex digits + h     3: decimal (NDIG digits)   4: 0b + bits
//            5: bits + b               6: octal digits + q      7: 'c'                     8: hex with _ separators
//   CLASS (hex): 0 all digits 0-9, 1 all a-f, 2 first digit a-f rest 0-9, 3 first digit A-F rest 0-9
#include "asmlib.h"
static char src[300];
static char hexch(uint8_t v, int upper) { return (char)(v < 10 ? '0' + v : (upper ? 'A' : 'a') + (v - 10)); }
extern "C" void harness_main()
{
  AsmContext *c = new AsmContext();
  char *p = src;
  p = vp_append(p, ".msp430\n.org 0x100\n.dc64 ");
  uint64_t expect = 0;
#if NOTATION == 1 || NOTATION == 2 || NOTATION == 8
  if (NOTATION == 1 || NOTATION == 8) p = vp_append(p, "0x");
  if (NOTATION == 2) *p++ = '0';
  for (int i = 0; i < 16; i++)
  {
    uint8_t v = symx_u8("nib");
    int letters = (CLASS == 1) || ((CLASS == 2 || CLASS == 3) && i == 0);
    if (letters) symx_assume(v >= 10 && v <= 15); else symx_assume(v <= 9);
    // "0b...h" is read as a (malformed) binary literal: the h-suffix notation cannot spell a hex number whose first digit is b
    if (NOTATION == 2 && i == 0) symx_assume(v != 11);
    *p++ = hexch(v, CLASS == 3);
    if (NOTATION == 8 && (i == 3 || i == 7 || i == 11)) *p++ = '_';
    expect = (expect << 4) | v;
  }
  if (NOTATION == 2) *p++ = 'h';
#elif NOTATION == 3
  for (int i = 0; i < NDIG; i++)
  {
    uint8_t v = symx_u8("dig"); symx_assume(v <= 9);
    if (i == 0) symx_assume(v >= 1);
    *p++ = (char)('0' + v);
    expect = expect * 10 + v;
  }
#elif NOTATION == 4 || NOTATION == 5
  if (NOTATION == 4) p = vp_append(p, "0b");
  for (int i = 0; i < NBITS; i++)
  {
    // the first SYMBITS and the last one are symbolic, the rest alternate
    uint8_t b;
    if (i < SYMBITS || i == NBITS - 1) { b = symx_u8("bit"); symx_assume(b <= 1); } else b = (uint8_t)(i & 1);
    if (i == 0 && NOTATION == 5) symx_assume(b == 1);
    *p++ = (char)('0' + b);
    expect = (expect << 1) | b;
  }
  if (NOTATION == 5) *p++ = 'b';
#elif NOTATION == 6
  for (int i = 0; i < NDIG; i++)
  {
    uint8_t v = symx_u8("oct"); symx_assume(v <= 7);
    if (i == 0) symx_assume(v >= 1);
    *p++ = (char)('0' + v);
    expect = (expect << 3) | v;
  }
  *p++ = 'q';
#elif NOTATION == 7
  uint8_t ch = symx_u8("ch");
  symx_assume((ch >= 'a' && ch <= 'z') || (ch >= '0' && ch <= '9') || ch == ' ' || ch == '#' || ch == ',' || ch == '~');
  *p++ = '\''; *p++ = (char)ch; *p++ = '\'';
  expect = ch;
#endif
  *p++ = '\n'; *p = 0;
  int e = vp_assemble(c, src);
  symx_assert(e == 0, "a literal in a documented notation is accepted");
  if (e != 0) return;
  uint64_t got = 0;
  for (int i = 0; i < 8; i++) got |= (uint64_t)c->memory.read8(0x100 + i) << (8 * i);
  symx_assert(got == expect, "the literal has the value of its notation (64-bit two's complement)");
  symx_cover("valued");
}
