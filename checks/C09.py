import vp
NAMES = {1: "define_obj", 2: "define_fn", 3: "macro2_label", 4: "macro_nested", 5: "equ", 6: "repeat", 7: "include", 8: "macro3_twice", 9: "macro_instr_define_arg", 10: "char_args", 11: "prefix_names", 12: "prefix_names3", 13: "macro_in_repeat", 14: "define_through_nested_macros"}

def jobs(tier):
    return [vp.Job("macros.%s" % NAMES[t], "macros.cpp", {"T": t}, max_paths=100000, timeout=600, min_completed=1) for t in sorted(NAMES)]

def main(tier):
    return vp.check_property("C09", tier, jobs(tier),
        "Differential symbolic execution: a program using .define/.macro/equ/.repeat/.include and its hand expansion are both assembled by the real two-pass flow "
        "(tokenizer with its unget/push-back buffers, Macros, macro expansion stack, parse_repeat, include_parse over the in-memory file system) with symbolic argument values; "
        "Z3 decides that image, location counter and label-dependent data are identical.",
        ["argument values 0..99 (decimal), templates T=1..14 in harness/macros.cpp: object/function-like defines, 2- and 3-parameter macros, nesting depth 2, macro before/after a label, equ, repeat count 1..3, one include file, parameter names that are prefixes of one another, a macro invoked inside .repeat (count 1..3), a define passed through two macro levels",
         "statement bodies are data directives and one MSP430 instruction form; deeper nesting and more parameters are outside the bound (limits are checked under C16)"])
