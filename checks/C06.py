import vp
# (cpu, name, pre, post, W field bits, LO, HI, bytes-per-address)   LO/HI: widest signed/unsigned reading of the field
def F(cpu, name, pre, post, w, lo=None, hi=None, bpa=1, rel=None):
    if lo is None: lo = -(1 << (w - 1))
    if hi is None: hi = (1 << w) - 1
    return dict(cpu=cpu, name=name, pre=pre, post=post, w=w, lo=lo, hi=hi, bpa=bpa, rel=rel)
FORMS = [
 F("msp430", "mov_imm", "mov.w #", ", r5", 16), F("msp430", "movb_imm", "mov.b #", ", r5", 8), F("msp430", "add_idx", "add.w ", "(r4), r6", 16),
 F("msp430", "mov_abs", "mov.w &", ", r5", 16), F("msp430", "jmp", "jmp ", "", 16, rel=(10, 2, 2)),
 F("6502", "lda_imm", "lda #", "", 8), F("6502", "lda_abs", "lda ", "", 16), F("6502", "bne", "bne ", "", 16, rel=(8, 1, 2)),
 F("z80", "ld_a_n", "ld a, ", "", 8), F("z80", "ld_hl_nn", "ld hl, ", "", 16), F("z80", "jr", "jr ", "", 16, rel=(8, 1, 2)),
 F("8051", "mov_a_imm", "mov A, #", "", 8), F("8051", "sjmp", "sjmp ", "", 16, rel=(8, 1, 2)),
 F("avr8", "ldi", "ldi r16, ", "", 8, bpa=2), F("avr8", "adiw", "adiw r24, ", "", 6, lo=0, hi=63, bpa=2), F("avr8", "rjmp", "rjmp ", "", 16, rel=(12, 2, 2), bpa=2),
 F("stm8", "ld_a_imm", "ld A, #", "", 8), F("stm8", "jra", "jra ", "", 16, rel=(8, 1, 2)),
 F("riscv", "addi", "addi t0, t0, ", "", 12, lo=-2048, hi=4095), F("riscv", "slli", "slli t0, t0, ", "", 5, lo=0, hi=31), F("riscv", "lui", "lui t0, ", "", 20, lo=-(1 << 19), hi=(1 << 20) - 1),
 F("mips32", "addiu", "addiu $t0, $t0, ", "", 16), F("mips32", "sll", "sll $t0, $t0, ", "", 5, lo=0, hi=31), F("mips32", "ori", "ori $t0, $t0, ", "", 16),
 F("pic14", "movlw", "movlw ", "", 8, bpa=2), F("tms9900", "li", "li r0, ", "", 16), F("68000", "moveq", "moveq #", ", d0", 8), F("68000", "addq", "addq.w #", ", d0", 3, lo=1, hi=8),
 F("epiphany", "beq", "beq ", "", 32, rel=(24, 2, 0)), F("epiphany", "b", "b ", "", 32, rel=(24, 2, 0)), F("epiphany", "bl", "bl ", "", 32, rel=(24, 2, 0)),
 F("thumb", "movs", "movs r0, #", "", 8, lo=0, hi=255), F("6800", "ldaa_imm", "ldaa #", "", 8), F("sh4", "mov_imm", "mov #", ", r1", 8),
 # round 2: sibling instructions that share a field width but go through other table rows / operand-type branches of the same parsers
 F("msp430", "cmp_imm", "cmp.w #", ", r5", 16), F("msp430", "subb_imm", "sub.b #", ", r5", 8), F("msp430", "jne", "jne ", "", 16, rel=(10, 2, 2)), F("msp430", "push_imm", "push #", "", 16), F("msp430", "call_imm", "call #", "", 16),
 F("6502", "ldx_imm", "ldx #", "", 8), F("6502", "sta_abs", "sta ", "", 16), F("6502", "beq", "beq ", "", 16, rel=(8, 1, 2)),
 F("z80", "ld_b_n", "ld b, ", "", 8), F("z80", "ld_bc_nn", "ld bc, ", "", 16), F("z80", "djnz", "djnz ", "", 16, rel=(8, 1, 2)),
 F("8051", "add_a_imm", "add A, #", "", 8),
 F("avr8", "subi", "subi r16, ", "", 8, bpa=2), F("avr8", "andi", "andi r17, ", "", 8, bpa=2), F("avr8", "sbiw", "sbiw r26, ", "", 6, lo=0, hi=63, bpa=2), F("avr8", "rcall", "rcall ", "", 16, rel=(12, 2, 2), bpa=2),
 F("riscv", "andi", "andi t0, t0, ", "", 12, lo=-2048, hi=4095), F("riscv", "srai", "srai t0, t0, ", "", 5, lo=0, hi=31), F("riscv", "auipc", "auipc t0, ", "", 20, lo=-(1 << 19), hi=(1 << 20) - 1),
]
QUICK = {"msp430", "6502", "z80", "avr8", "riscv", "8051", "epiphany"}

def jobs(tier):
    js = []
    for f in FORMS:
        if tier == "quick" and f["cpu"] not in QUICK: continue
        base = {"CPUNAME": '"%s"' % f["cpu"], "PRE": '"%s"' % f["pre"], "POST": '"%s"' % f["post"], "W": f["w"], "LO": "%dLL" % f["lo"], "HI": "%dLL" % f["hi"], "BPA": f["bpa"]}
        d1 = dict(base, MODE=1)
        if f["rel"]:
            d1.update({"REL_BITS": f["rel"][0], "REL_SCALE": f["rel"][1], "REL_PCOFF": f["rel"][2]})
        js.append(vp.Job("operands.range.%s.%s" % (f["cpu"], f["name"]), "operands.cpp", d1, max_paths=200000, timeout=600, min_completed=2))
        if not f["rel"]:
            js.append(vp.Job("operands.inj.%s.%s" % (f["cpu"], f["name"]), "operands.cpp", dict(base, MODE=2), max_paths=200000, timeout=600, min_completed=1))
        else:
            # branch targets: two different accepted targets within +-1500 address units of the instruction never encode alike
            # (covers the boundary between a short and a long branch form where an assembler chooses between them)
            js.append(vp.Job("operands.inj.%s.%s" % (f["cpu"], f["name"]), "operands.cpp", dict(base, MODE=2, W=32, LO="%dLL" % (4096 - 1500), HI="%dLL" % (4096 + 1500)), max_paths=200000, timeout=600, min_completed=1))
    return js

def main(tier):
    return vp.check_property("C06", tier, jobs(tier),
        "One-instruction programs INSTR(v) are assembled by the real two-pass flow with the operand v symbolic over all 2^32 values (exact decimal spelling); Z3 decides that every accepted value lies in "
        "the widest signed/unsigned reading of the field (branch targets: aligned and within the distance the field can hold), and - by self-composition of two assemblies - that two accepted values "
        "which are not spellings of the same field value never produce the same bytes.",
        ["forms and their field widths/ranges are listed in checks/C06.py (from the architecture manuals); load address fixed at .org 4096",
         "operands are written in signed decimal; other notations are C04's subject",
         "floating point immediates are outside the claim"])
