import vp
from cpus import CPUS

QUICK = ["msp430", "6502", "8051", "avr8", "z80", "stm8", "riscv", "lc3", "6800", "8008", "pic14", "sh4"]


# CPUs whose decoders showed violations / did not finish in the first thorough sweep; they are triaged one by one
# (see triage/ and DESIGN.md) and are not part of the registered tiers until then
PENDING = set()


def jobs(tier, names=None):
    js = []
    names = names or (QUICK if tier == "quick" else sorted(n for n in CPUS if n not in PENDING))
    for n in names:
        c = CPUS[n]
        d = {"DISASM_FN": c["disasm"], "DISASM_HDR": '"%s"' % c["hdr"], "NBYTES": c["nbytes"], "BASE": c["base"],
             "MINLEN": c["minlen"], "MAXLEN": c["maxlen"], "FLAGS": '"%s"' % c["flags"] if False else c["flags"], "ENDIAN": c["endian"], "LOCALITY": None}
        if n == "pdp8": d["STRIP_SEMI_COMMENT"] = None
        js.append(vp.Job("disasm_total.%s" % n, "disasm_total.cpp", d, max_paths=60000 if tier == "quick" else 400000,
                         timeout=240 if tier == "quick" else 600, allow_partial=True, min_completed=1 if n in ('tms1000', 'tms1100', 'copper', 'dspic') else 20, render_classes=2, merge_ptrs=True, support_bits=10))
        # the same harness explored false-branch-first: reaches the 'no table row matches' / undefined-opcode paths at once
        js.append(vp.Job("disasm_total.%s.ff" % n, "disasm_total.cpp", d, max_paths=60000 if tier == "quick" else 400000,
                         timeout=120 if tier == "quick" else 300, allow_partial=True, min_completed=1, render_classes=2, false_first=True, merge_ptrs=True, support_bits=10))
    return js


def main(tier):
    return vp.check_property("C08", tier, jobs(tier),
        "Per CPU: the real disasm_<cpu>() is executed symbolically over a window of fully symbolic bytes at a concrete address; "
        "every completed path is an input class decided by Z3; length bounds, NUL termination, object bounds of every load/store, "
        "step budget (termination) and locality (self-composition with different trailing bytes) are asserted on each path.",
        ["window of NBYTES symbolic bytes at BASE (concrete address) in a real Memory object; bytes outside read as 0",
         "libc string/format functions modelled exactly by the engine (snprintf/sprintf/strcat/strcpy)",
         "path budget: jobs marked partial_allowed explore the first max_paths paths in DFS order; unexplored paths are reported as pending, not as held",
         "maximum instruction length per CPU from the architecture manuals (checks/cpus.py)"])
