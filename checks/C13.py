import vp
from C12 import PROGS
def jobs(tier):
    js = []
    combos = [("msp430_basic", '"-type","hex"', '"-type","hex","-l","-dump_symbols"', "hex_l_dump"),
              ("cond_macro", '"-type","hex"', '"-type","hex","-q","-dump_macros"', "hex_q_macros"),
              ("z80", '"-type","bin","-l"', '"-type","bin"', "bin_l_first"),
              ("data_expr", '"-type","hex"', '"-type","hex"', "same_twice")]
    if tier == "thorough":
        combos += [("scope_set", '"-type","hex"', '"-type","hex","-l","-dump_symbols","-dump_macros"', "hex_all"),
                   ("cond_macro", '"-type","bin","-l"', '"-type","bin","-q"', "bin_l_q"), ("msp430_basic", '"-type","wdc"', '"-type","wdc","-l"', "wdc_l")]
    for prog, o1, o2, nm in combos:
        d = {"PROGRAM": '"%s"' % PROGS[prog], "OPTS1": o1, "OPTS2": o2}
        js.append(vp.Job("determinism.%s.%s" % (prog, nm), "determinism.cpp", d, extra_bc=["naken_asm"], max_paths=200000, timeout=1200, min_completed=50, max_steps=40000000))
    # the image does not depend on the output type nor on the number of empty lines before the program (symbolic)
    XPROGS = {"msp430": ".msp430\\n.org 0x1000\\nstart:\\n  mov.w #5, r4\\n  add.w r4, r5\\n  .db 1, 2\\n  jmp start\\n",
              "z80": ".z80\\n.org 0x100\\n  ld a, 5\\n  jr nz, lab\\nlab: ret\\n  .dw 0x1234\\n  .db 7\\n  nop\\n",
              "6502": ".6502\\n.org 0xfff0\\n  lda #1\\n  .dc32 0x11223344\\n  .ascii \\\"ab\\\"\\n  rts\\n"}
    for nm in (["msp430", "z80"] if tier == "quick" else ["msp430", "z80", "6502"]):
        js.append(vp.Job("crosstype." + nm, "crosstype.cpp", {"PROGRAM": '"%s"' % XPROGS[nm]}, max_paths=20000, timeout=600, min_completed=1))
    return js

def main(tier):
    return vp.check_property("C13", tier, jobs(tier),
        "Self-composition on naken_asm's real main(): it is executed twice in one process on the same source (a valid program with one solver-enumerated single-character corruption) "
        "with different reporting options (-l, -q, -dump_symbols, -dump_macros), a different output file name and the first run as history; Z3 decides on every path that both runs "
        "return the same status and write byte-identical output files.",
        ["crosstype jobs: one program is assembled by the real two-pass flow with a SYMBOLIC number (0 .. 2^30) of empty lines before it (added to tokens.line after init() in both passes), then written by the real file_write() as bin, hex, srec and wdc; an own Intel-HEX decoder and the real srec/wdc readers bring the files back and Z3 decides byte equality with the bin file on every path",
         "programs / option pairs listed in checks/C13.py; output types compared like with like (hex, bin, wdc); S-record output not compared (timestamp header)",
         "single-character substitutions of small programs; larger programs and other histories (naken_util interactive asm) outside the bound",
         "runs that end in exit() inside main are not compared"])
