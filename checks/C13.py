import vp
from C12 import PROGS
TRUNC = [
    ('6502', 'lda (0x10),y'),
    ('6502', 'bne 0x1010'),
    ('6502', 'lda 0x1234,x'),
    ('65816', 'lda [0x10],y'),
    ('65816', 'brl 0x1100'),
    ('65816', 'mvn 1,2'),
    ('65816', 'lda 0x123456,x'),
    ('6800', 'ldaa 0x10,x'),
    ('6809', 'lda 0x10,x'),
    ('6809', 'lbra 0x1100'),
    ('68hc08', 'lda 0x10,x'),
    ('68hc08', 'bra 0x1010'),
    ('z80', 'ld a,(ix+5)'),
    ('z80', 'jr nz,0x1010'),
    ('z80', 'ld (0x1234),hl'),
    ('z80', 'bit 3,(hl)'),
    ('z80', 'ld (ix+5),7'),
    ('8051', 'mov A,#0x10'),
    ('8051', 'sjmp 0x1010'),
    ('8051', 'mov 0x10,#5'),
    ('8051', 'cjne A,#5,0x1010'),
    ('avr8', 'ldi r16,0x10'),
    ('avr8', 'rjmp 0x1010'),
    ('avr8', 'ldd r16,Y+5'),
    ('avr8', 'sbi 5,3'),
    ('avr8', 'lds r16,0x100'),
    ('msp430', 'mov.w #5,r4'),
    ('msp430', 'mov.w 2(r4),r5'),
    ('msp430x', 'mova #0x12345,r5'),
    ('stm8', 'ld A,(0x10,X)'),
    ('stm8', 'jra 0x1010'),
    ('stm8', 'btjt 0x10,#2,0x1010'),
    ('stm8', 'ldw X,(0x10,SP)'),
    ('riscv', 'lw x5,8(x6)'),
    ('riscv', 'beq x1,x2,0x1010'),
    ('riscv', 'addi x5,x6,7'),
    ('mips32', 'lw $t0,8($sp)'),
    ('mips32', 'beq $t0,$t1,0x1010'),
    ('mips32', 'addi $t0,$t1,5'),
    ('arm', 'ldr r0,[r1,#4]'),
    ('arm', 'add r0,r1,#4'),
    ('thumb', 'ldr r0,[r1,#4]'),
    ('thumb', 'add r0,#4'),
    ('arm64', 'add x0,x1,#4'),
    ('68000', 'move.w #5,d0'),
    ('68000', 'move.w (4,a0),d1'),
    ('68000', 'moveq #5,d0'),
    ('68000', 'bra.s 0x1010'),
    ('68000', 'lea (4,a0),a1'),
    ('pic14', 'movlw 0x10'),
    ('pic14', 'bsf 5,3'),
    ('tms9900', 'li r1,0x1234'),
    ('tms9900', 'mov @0x100(r1),r2'),
    ('8008', 'mvi a,5'),
    ('8008', 'jmp 0x1010'),
    ('1802', 'ldi 5'),
    ('1802', 'br 0x1010'),
    ('lc3', 'add r1,r2,#3'),
    ('lc3', 'ldr r1,r2,#3'),
    ('sh4', 'mov #5,r1'),
    ('sh4', 'mov.l @(4,r1),r2'),
    ('propeller', 'mov 5,#6'),
    ('propeller2', 'mov 5,#6'),
    ('8048', 'mov a,#5'),
    ('8048', 'jmp 0x110'),
    ('4004', 'jun 0x123'),
    ('dspic', 'mov #5,w0'),
    ('dspic', 'add w0,w1,w2'),
    ('pdp8', 'tad 010'),
    ('epiphany', 'mov r0,#5'),
    ('super_fx', 'iwt r1,#0x1234'),
    ('powerpc', 'addi r1,r2,5'),
    ('powerpc', 'lwz r1,8(r2)'),
    ('powerpc', 'b 0x1010'),
    ('tms1000', 'tcy 5'),
    ('cp1610', 'mvii #5,r1'),
    ('xtensa', 'addi a1,a2,5'),
    ('arc', 'add r0,r1,5'),
    ('cell', 'ai r1,r2,5'),
    ('ebpf', 'add r1,5'),
    ('webasm', 'i32.const 5'),
    ('pic18', 'movlw 5'),
    ('pic24', 'mov #5,w0'),
    ('ps2_ee', 'lw $t0,8($sp)'),
    ('thumb', 'bl 0x1010'),
    ('86000', 'mov #5,0x10'),
    ('f100_l', 'add 0x100'),
    ('lc3', 'br 0x1010'),
    ('4004', 'jcn 11, 0xc2'),
    ('4004', 'fim 8, 0x7e'),
    ('4004', 'isz 10, 0x99'),
    ('8041', 'out dbb, A'),
    ('8041', 'mov sts, A'),
    ('f8', 'lr dc0, h'),
    ('f8', 'bt 3, 0x1010'),
    ('m8c', 'mov [0x10], 0x42'),
    ('m8c', 'add [X+0x10], A'),
    ('n64_rsp', 'sbv $v4[10], 7($16)'),
    ('n64_rsp', 'vmacq $v4, $v2, $v29'),
    ('pdk13', 'sub a, 0x41'),
    ('pdk13', 'or [0x02], a'),
    ('pdk14', 'xor a, [0x02]'),
    ('pdk15', 'mov a, 0x1b'),
    ('pdk15', 'nadd a, [0x02]'),
    ('pdk16', 'mov a, 0x1b'),
    ('ps2_ee_vu1', 'madday.xz acc, vf4, vf23  nop'),
    ('ps2_ee_vu0', 'addax.xz acc, vf4, vf23  nop'),
    ('riscv64', 'amoand.d x17, x26, (x6)'),
    ('riscv64', 'sraiw x30, x25, 28'),
    ('sweet16', 'set r3, 0x1234'),
    ('tms340', 'move *a10, *a4, 0'),
    ('tms340', 'pixblt XY, L'),
    ('unsp', 'add r4,[0x33]'),
    ('unsp', 'add r4,#34'),
    ('unsp', 'or r1,r2 lsr 1'),
    ('65832', 'lda 0x1234,x'),
    ('mips', 'lw $t0,8($sp)'),
    ('pic32', 'lw $t0,8($sp)'),
    ('tms1100', 'tcy 5'),
    ('pdp11', 'mov #5, r1'),
    ('pdp11', 'mov 4(r1), r2'),
    ('agc', 'ad 0100'),
    ('java', 'bipush 5'),
    ('java', 'iinc 1, 2'),
    ('copper', 'wait 10, 20'),
]

def trunc_name(cpu, ins):
    nm = "%s.%s" % (cpu, ins)
    for a, b in ((" ", "_"), (",", ""), ("#", "i"), ("(", "L"), (")", "R"), ("$", ""), ("[", "B"), ("]", "E"), ("+", "p"), ("@", "at"), ("%", ""), ("=", "eq")):
        nm = nm.replace(a, b)
    return nm

def jobs(tier):
    js = []
    combos = [("msp430_basic", '"-type","hex"', '"-type","hex","-l","-dump_symbols"', "hex_l_dump"),
              ("cond_macro", '"-type","hex"', '"-type","hex","-q","-dump_macros"', "hex_q_macros"),
              ("z80", '"-type","bin","-l"', '"-type","bin"', "bin_l_first"),
              ("data_expr", '"-type","hex"', '"-type","hex"', "same_twice")]
    if tier == "thorough":
        combos += [("scope_set", '"-type","hex"', '"-type","hex","-l","-dump_symbols","-dump_macros"', "hex_all"),
                   ("cond_macro", '"-type","bin","-l"', '"-type","bin","-q"', "bin_l_q"), ("msp430_basic", '"-type","wdc"', '"-type","wdc","-l"', "wdc_l")]
    for prog, o1, o2, nm in combos:
        d = {"PROGRAM": '"%s"' % PROGS[prog], "OPTS1": o1, "OPTS2": o2}
        js.append(vp.Job("determinism.%s.%s" % (prog, nm), "determinism.cpp", d, extra_bc=["naken_asm"], max_paths=200000, timeout=1200, min_completed=50, max_steps=40000000))
    # the image does not depend on the output type nor on the number of empty lines before the program (symbolic)
    XPROGS = {"msp430": ".msp430\\n.org 0x1000\\nstart:\\n  mov.w #5, r4\\n  add.w r4, r5\\n  .db 1, 2\\n  jmp start\\n",
              "z80": ".z80\\n.org 0x100\\n  ld a, 5\\n  jr nz, lab\\nlab: ret\\n  .dw 0x1234\\n  .db 7\\n  nop\\n",
              "6502": ".6502\\n.org 0xfff0\\n  lda #1\\n  .dc32 0x11223344\\n  .ascii \\\"ab\\\"\\n  rts\\n"}
    for nm in (["msp430", "z80"] if tier == "quick" else ["msp430", "z80", "6502"]):
        js.append(vp.Job("crosstype." + nm, "crosstype.cpp", {"PROGRAM": '"%s"' % XPROGS[nm]}, max_paths=20000, timeout=600, min_completed=1))
    # an instruction cut short at every character position: whatever the assembler still accepts must not contain
    # bytes computed from uninitialised storage (the source text is concrete, so every emitted byte has to be concrete)
    for k, (cpu, ins) in enumerate(TRUNC):
        for mode, mn in ((1, "truncated"), (2, "deleted"), (3, "replaced"), (4, "surplus"), (5, "surplus_front")):
            if tier == "quick" and mode == 3 and k % 4 != 0: continue
            js.append(vp.Job("%s.%s" % (mn, trunc_name(cpu, ins)), "truncated.cpp", {"CPUNAME": '"%s"' % cpu, "INSTR": '"%s"' % ins, "MODE": mode}, max_paths=5000, timeout=200, min_completed=1))
    return js

def main(tier):
    return vp.check_property("C13", tier, jobs(tier),
        "Self-composition on naken_asm's real main(): it is executed twice in one process on the same source (a valid program with one solver-enumerated single-character corruption) "
        "with different reporting options (-l, -q, -dump_symbols, -dump_macros), a different output file name and the first run as history; Z3 decides on every path that both runs "
        "return the same status and write byte-identical output files.",
        ["truncated jobs: a concrete instruction (checks/C13.py TRUNC: 125 forms over 66 CPUs; all in both tiers) cut after an engine-chosen character, or with one character deleted, or with one character replaced by one of ' ,()#+' (every fourth form in the quick tier), or with up to nine surplus operands appended or put in front; if the assembler accepts the rest, every emitted byte must be concrete - the engine gives each uninitialised byte it loads a fresh symbolic value, so a symbolic emitted byte was computed from storage that is not determined by the source",
         "crosstype jobs: one program is assembled by the real two-pass flow with a SYMBOLIC number (0 .. 2^30) of empty lines before it (added to tokens.line after init() in both passes), then written by the real file_write() as bin, hex, srec and wdc; an own Intel-HEX decoder and the real srec/wdc readers bring the files back and Z3 decides byte equality with the bin file on every path",
         "programs / option pairs listed in checks/C13.py; output types compared like with like (hex, bin, wdc); S-record output not compared (timestamp header)",
         "single-character substitutions of small programs; larger programs and other histories (naken_util interactive asm) outside the bound",
         "runs that end in exit() inside main are not compared"])
