import vp

SHAPES_QUICK = ["N", "NBN", "NBNBN", "NBNBNBN", "UN", "UUN", "NBUN", "UNBN", "(N)", "(NBN)BN", "NB(NBN)", "NB(NBN)BN", "U(NBN)", "NBNB(NBN)", "(NBN)B(NBN)", "((N))", "NB", "BN", "NN", "NBBN"]
SHAPES_THOROUGH = SHAPES_QUICK + ["NBNBNBNBN", "NBNBNBNBNBN", "NBNBUNBN", "(NBNBN)BN", "NB(NBNBN)", "NB((NBN)BN)", "U(NBNBN)", "NBUUN", "(NBN)BNBN"]


def jobs(tier):
    js = []
    for sh in (SHAPES_QUICK if tier == "quick" else SHAPES_THOROUGH):
        name = sh.replace("(", "L").replace(")", "R")
        big = sh.count("B") >= 4       # operator-kind combinations grow as 18^n: explored until the budget ends
        js.append(vp.Job("eval_grammar." + name, "eval_grammar.cpp", {"SHAPE": '"%s"' % sh}, uf_muldiv=True,
                         max_paths=400000, timeout=500 if tier == "quick" else (1200 if big else 2400), min_completed=1, allow_partial=big))
    # (c) literal notations through the real tokenizer
    L = lambda name, d: js.append(vp.Job("literals." + name, "literals.cpp", d, max_paths=200000, timeout=500, min_completed=1))
    for cls, cn in ((0, "digits"), (1, "letters"), (2, "lead_letter"), (3, "lead_upper")):
        L("hex0x." + cn, {"NOTATION": 1, "CLASS": cls}); L("hexh." + cn, {"NOTATION": 2, "CLASS": cls})
    L("hex_sep", {"NOTATION": 8, "CLASS": 2})
    for nd in (1, 3, 5, 10, 15, 18): L("dec%d" % nd, {"NOTATION": 3, "NDIG": nd})
    L("bin0b.8", {"NOTATION": 4, "NBITS": 8, "SYMBITS": 7}); L("bin0b.31", {"NOTATION": 4, "NBITS": 31, "SYMBITS": 6}); L("binb.16", {"NOTATION": 5, "NBITS": 16, "SYMBITS": 6})
    L("bin0b.16", {"NOTATION": 4, "NBITS": 16, "SYMBITS": 6}); L("binb.8", {"NOTATION": 5, "NBITS": 8, "SYMBITS": 7}); L("oct11", {"NOTATION": 6, "NDIG": 11}); L("oct16", {"NOTATION": 6, "NDIG": 16})
    L("oct5", {"NOTATION": 6, "NDIG": 5}); L("oct21", {"NOTATION": 6, "NDIG": 21}); L("char", {"NOTATION": 7})
    return js


def main(tier):
    return vp.check_property("C04", tier, jobs(tier),
        "EvalExpression::run/execute_stack, Operator::set_operator/execute and Var arithmetic are executed symbolically on token skeletons "
        "whose operator kinds are symbolic (solver-enumerated) and whose operands are symbolic 64-bit values; each path's result is compared "
        "with an independent precedence-climbing evaluator; division by zero, INT64_MIN/-1 and shift counts >= 64 are decided by solver queries at the operation.",
        ["grammar jobs: token stream replaced by a skeleton (tokens_get/tokens_push stubbed); literal jobs: '.dc64 <literal>' through the real two-pass assembler with symbolic digits (hex 16 digits in four letter-case classes, 0x prefix / h suffix / _ separators, decimal up to 18 digits, binary up to 31 bits, octal with q suffix up to 21 digits, character literals)",
         "symbolic x symbolic 64-bit *, /, % are uninterpreted functions shared by implementation and oracle (congruence); their leaf semantics is LLVM mul/sdiv/srem",
         "floating point operands outside the claim",
         "bounds: expression shapes listed in checks/C04.py (up to 3 binary operators flat exhaustively; shapes with 4 or 5 binary operators are explored until their time budget ends, pending paths reported; one parenthesis level, unary prefixes)"])
