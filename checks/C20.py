import vp

def jobs(tier):
    js = []
    def J(name, d, timeout=900):
        js.append(vp.Job("linking." + name, "linking.cpp", d, extra_bc=["naken_asm"], max_paths=100000, timeout=timeout, min_completed=1, max_steps=50000000))
    J("obj.low", {"LIBKIND": 1, "ORG": "0x1000"})
    J("ar1.high", {"LIBKIND": 2, "ORG": "0x9d001000"})
    J("ar2.low", {"LIBKIND": 3, "ORG": "0x1000"})
    J("obj.extrasec_after", {"LIBKIND": 1, "ORG": "0x1000", "EXTRASEC": 1})
    J("ar2.extrasec_before", {"LIBKIND": 3, "ORG": "0x1000", "EXTRASEC": 2})
    J("unsupported.be", {"UNSUPPORTED": 1})
    J("unsupported.elf64", {"UNSUPPORTED": 2})
    J("unsupported.trunc", {"UNSUPPORTED": 3})
    J("unsupported.trunc_sh", {"UNSUPPORTED": 4})
    J("unsupported.ar_be", {"UNSUPPORTED": 5})
    if tier == "thorough":
        J("obj.high", {"LIBKIND": 1, "ORG": "0x9d001000"}, 2400)
        J("obj.be", {"LIBKIND": 1, "ORG": "0x1000", "BIGEND": 1}, 2400)
        J("ar1.low", {"LIBKIND": 2, "ORG": "0x1000"}, 2400)
        J("ar2.high.be", {"LIBKIND": 3, "ORG": "0x9d001000", "BIGEND": 1}, 2400)
        J("obj.extrasec_before.high", {"LIBKIND": 1, "ORG": "0x9d001000", "EXTRASEC": 2}, 2400)
        J("ar1.extrasec_after.be", {"LIBKIND": 2, "ORG": "0x1000", "EXTRASEC": 1, "BIGEND": 1}, 2400)
        J("ar2.sizes", {"LIBKIND": 3, "ORG": "0x0", "NA": 4, "NB": 1, "NC": 3}, 2400)
    return js

def main(tier):
    return vp.check_property("C20", tier, jobs(tier),
        "The real main() of naken_asm (link_file, both passes, AsmContext::link, Linker, imports_obj/imports_ar, link_function_mips, tokens_get's deferral of imported names, write_bin) runs on the engine's in-memory file "
        "system with a crafted ELF32 relocatable object (or ar archive of such objects) whose instruction words are symbolic 32-bit values and whose call sites (position inside fa/fb, target symbol among fa/fb/fc/undefined) and the "
        "program's calls are chosen by the engine; Z3 decides on every path that the output image is the program followed by exactly the reference closure of functions, each once, byte-identical to the object file, "
        "with every jal (program and relocated) bound to the address where the named function was placed, regions disjoint; undefined/unknown symbols and unsupported object files must end in a non-zero exit status with an error message.",
        ["objects: little-endian ELF32, sections .text/.symtab/.strtab/.rel.text/.shstrtab, optionally the further sections .text.startup, .data and .rel.text.startup (with relocations at the same offsets naming another symbol) placed after or before the ones they resemble; three global functions of 1-4 words, R_MIPS_26 relocations against named global symbols (section-relative relocations of local calls outside the claim)",
         "only relocated words are jal instructions (assumed on the symbolic words); the jal target field of relocated words is symbolic",
         "targets: .mips32 little- and big-endian text; origins 0x0, 0x1000 and 0x9d001000 (a PIC32 flash address above 256 MiB)",
         "archives: one member, or an index member plus two members with a cross-member call; long member names / GNU name tables outside the bound",
         "unsupported files: big-endian ELF32 header (alone and as archive member), ELFCLASS64 header, file truncated inside the ELF header or inside the section header table",
         "the program is assembled by the real assembler; function addresses are read back from the bound jal words of the image (the output file is the only observation)"])
