import vp
FAMS = {1: ("long_identifier", "8,31,32,33,63,64,65,127,128,129,255,256,257,510,511,512,513,700,1023,1024,1025"), 2: ("long_number", "9,31,32,33,63,64,65,100,127,128,129,255,256,257,511,512,600"), 3: ("long_string", "3,127,128,129,255,256,257,509,510,511,512,513,800,1023,1024,1025"),
        4: ("comments", "5,600,5000"), 5: ("macro_body", "16,1000,1020,1024,1030,2000"), 6: ("macro_args", "4,31,32,33,63,64,65,120,127,128,129,130,255,260,511,512,513,1020,1030,1100"),
        7: ("define_recursion", "3,126,127,128,129,200"), 8: ("paren_depth", "4,63,64,65,400,20000"), 9: ("extreme_operands", "1"), 10: ("many_operands", "2,3,4,5,8,40"),
        11: ("conditional_depth", "3,63,64,65,5000"), 13: ("include_recursion", "1"), 14: ("prefix_operators", "3,63,64,65,100000"),
        15: ("backslashes", "2,126,127,128,129,254,255,256,257,510,512,1022,1023,1024,1025,1026,8000")}
def jobs(tier):
    return [vp.Job("robust_asm.%s" % nm, "robust_asm.cpp", {"FAMILY": f, "LENGTHS": lens}, extra_bc=["naken_asm"], max_paths=5000, timeout=900, min_completed=1, max_steps=60000000, max_violations=30)
            for f, (nm, lens) in sorted(FAMS.items())]
def sweep_jobs(tier):
    # every instruction form of C13's table with its last numeric literal replaced by a symbolic signed 32-bit value
    import re, C13
    js = []
    rx = re.compile(r"(?<![A-Za-z_$%.\d\[])(0x[0-9a-fA-F]+|\d+)(?![A-Za-z_\d])")
    for k, (cpu, ins) in enumerate(C13.TRUNC):
        ms = list(rx.finditer(ins))
        if not ms: continue
        if tier == "quick" and k % 2 != 0: continue
        m = ms[-1]
        pre, post = ins[:m.start()], ins[m.end():]
        d = {"CPUNAME": '"%s"' % cpu, "PRE": '"%s"' % pre, "POST": '"%s"' % post, "MODE": 3, "W": 32, "LO": "0LL", "HI": "0LL", "BPA": 1}
        js.append(vp.Job("operand_sweep." + C13.trunc_name(cpu, ins), "operands.cpp", d, max_paths=20000, timeout=300, min_completed=1, allow_partial=True, max_steps=20000000))
    return js

def main(tier):
    js = jobs(tier) + sweep_jobs(tier)
    # recorded finding: an image that wraps past 0xffffffff makes every writer walk 2^32 addresses
    js.append(vp.Job("robust_asm.address_wrap.known", "robust_asm.cpp", {"FAMILY": 12, "LENGTHS": "1"}, extra_bc=["naken_asm"], max_paths=10, timeout=300, min_completed=0, max_steps=30000000))
    return vp.check_property("C16", tier, js,
        "naken_asm's real main() runs on the in-memory file system on generated hostile sources: over-long identifiers, numbers, strings and comments (lengths around every fixed buffer size), over-long macro "
        "bodies / argument lists / names, define chains up to and beyond the nesting limit, mutually recursive defines, parenthesis and conditional nesting up to 20000 / 5000 levels, extreme directive operands; "
        "the engine bounds-checks every load and store against its object (token[512], params[1024], params_ptr[256], macro[], stack[] ...), bounds the call depth and the step count, and the "
        "verdict (status 0 or 1, diagnostic on failure) is asserted on every path.",
        ["operand_sweep jobs: each instruction form of checks/C13.py TRUNC that has a numeric literal (every second in the quick tier) is assembled by the real two-pass flow with that literal replaced by a SYMBOLIC signed 32-bit value in decimal: termination (step budget 2e7), object bounds of every access, at most 64 emitted bytes",
         "sources are generated per family with a length/depth chosen by the engine from the listed values (checks/C16.py); characters inside a run are one class (the tokenizer treats them alike)",
         "unstructured byte soup and interactions between families are outside the bound; single-character corruptions of valid programs are covered under C12",
         "call depth bound 3000 frames, step bound 6e7 per path"])
