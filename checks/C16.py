import vp
FAMS = {1: ("long_identifier", "8,510,511,512,513,700"), 2: ("long_number", "9,100,511,512,600"), 3: ("long_string", "3,509,510,511,512,513,800"),
        4: ("comments", "5,600,5000"), 5: ("macro_body", "16,1000,1020,1024,1030,2000"), 6: ("macro_args", "4,120,130,255,260,1020,1030,1100"),
        7: ("define_recursion", "3,126,127,128,129,200"), 8: ("paren_depth", "4,63,64,65,400,20000"), 9: ("extreme_operands", "1"), 10: ("many_operands", "2,3,4,5,8,40"),
        11: ("conditional_depth", "3,63,64,65,5000")}
def jobs(tier):
    return [vp.Job("robust_asm.%s" % nm, "robust_asm.cpp", {"FAMILY": f, "LENGTHS": lens}, extra_bc=["naken_asm"], max_paths=5000, timeout=900, min_completed=1, max_steps=60000000, max_violations=30)
            for f, (nm, lens) in sorted(FAMS.items())]
def main(tier):
    js = jobs(tier)
    # recorded finding: an image that wraps past 0xffffffff makes every writer walk 2^32 addresses
    js.append(vp.Job("robust_asm.address_wrap.known", "robust_asm.cpp", {"FAMILY": 12, "LENGTHS": "1"}, extra_bc=["naken_asm"], max_paths=10, timeout=300, min_completed=0, max_steps=30000000))
    return vp.check_property("C16", tier, js,
        "naken_asm's real main() runs on the in-memory file system on generated hostile sources: over-long identifiers, numbers, strings and comments (lengths around every fixed buffer size), over-long macro "
        "bodies / argument lists / names, define chains up to and beyond the nesting limit, mutually recursive defines, parenthesis and conditional nesting up to 20000 / 5000 levels, extreme directive operands; "
        "the engine bounds-checks every load and store against its object (token[512], params[1024], params_ptr[256], macro[], stack[] ...), bounds the call depth and the step count, and the "
        "verdict (status 0 or 1, diagnostic on failure) is asserted on every path.",
        ["sources are generated per family with a length/depth chosen by the engine from the listed values (checks/C16.py); characters inside a run are one class (the tokenizer treats them alike)",
         "unstructured byte soup and interactions between families are outside the bound; single-character corruptions of valid programs are covered under C12",
         "call depth bound 3000 frames, step bound 6e7 per path"])
