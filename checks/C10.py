import vp

SHAPES_Q = ["N", "!N", "NoN", "NoNoN", "NoNoNoN", "(NoN)oN", "No(NoN)", "!(NoN)", "D", "U", "!U", "DoN", "NoU", "!NoN", "(N)", "NoNo!N"]
SHAPES_T = SHAPES_Q + ["NoNoNoNoN", "(NoN)o(NoN)", "!(NoN)oN", "No(NoNoN)", "!!N", "DoUoN"]
BAD = {"unterminated_if": ".if 1\\n.db 1\\n", "unterminated_ifdef": ".ifdef YES\\n.db 1\\n", "stray_endif": ".db 1\\n.endif\\n", "stray_else": ".db 1\\n.else\\n.db 2\\n.endif\\n",
       "unbalanced_paren": ".if (1\\n.db 1\\n.endif\\n", "stray_rparen": ".if 1)\\n.db 1\\n.endif\\n", "missing_operand": ".if 1 ==\\n.db 1\\n.endif\\n", "no_label": ".ifdef\\n.db 1\\n.endif\\n",
       "unterminated_skipped": ".if 0\\n.db 1\\n"}

def jobs(tier):
    js = []
    for sh in (SHAPES_Q if tier == "quick" else SHAPES_T):
        nm = sh.replace("(", "L").replace(")", "R").replace("!", "n")
        big = sh.count("o") >= 4       # 4^5 operand and 7^4 operator combinations: explored until the budget ends, pending reported
        js.append(vp.Job("conditionals.expr." + nm, "conditionals.cpp", {"MODE": 1, "SHAPE": '"%s"' % sh}, max_paths=300000, timeout=600, min_completed=1, allow_partial=big))
    js.append(vp.Job("conditionals.nesting", "conditionals.cpp", {"MODE": 2}, max_paths=1000, timeout=300, min_completed=8))
    for k, t in BAD.items():
        js.append(vp.Job("conditionals.bad." + k, "conditionals.cpp", {"MODE": 3, "TEXT": '"%s"' % t}, max_paths=100, timeout=120, min_completed=1))
    return js

def main(tier):
    return vp.check_property("C10", tier, jobs(tier),
        "Programs with .if/.ifdef/.ifndef/.else/.endif are assembled by the real two-pass flow (tokenizer, eval_ifdef_expression/parse_ifdef_expression, ifdef_ignore, nested assemble()); "
        "operand digits and operator kinds of the condition are symbolic, branch selection of the nesting template is symbolic; Z3 decides that the image equals the branch an "
        "independent C-precedence evaluator selects, that untaken branches define no bytes, labels or defines, and that malformed conditionals are rejected.",
        ["condition operands: one-digit numbers 0..3 (all combinations), defined(X) on a defined and an undefined name; operators: == < > <= >= && || ! and parentheses; shapes listed in checks/C10.py",
         "the thorough shape with four binary operators (NoNoNoNoN) is explored until its time budget ends (pending paths reported); all other shapes exhaustively",
         "oracle semantics: ! binds tightest, then comparisons (left associative), then &&, then || (docs/directives.md gives no other order)",
         "branch bodies are .db markers, a label and a .define; arbitrary instruction statements are outside the bound"])
