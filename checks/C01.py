import vp, C07
def jobs(tier):
    js = []
    # (c) manual encodings: MSP430 core
    for lo in range(0, 12, 2):
        js.append(vp.Job("msp430_enc.two.op%d" % lo, "msp430_enc.cpp", {"KIND": 1, "OPLO": lo, "OPN": 2}, max_paths=400000, timeout=420 if tier == "quick" else 900, allow_partial=True, min_completed=20))
    js.append(vp.Job("msp430_enc.one", "msp430_enc.cpp", {"KIND": 2}, max_paths=400000, timeout=420 if tier == "quick" else 900, allow_partial=True, min_completed=20))
    # (c) manual encodings: RV32I base
    for kind, nm in ((1, "r"), (2, "i"), (3, "shift"), (4, "load"), (5, "store"), (6, "branch"), (7, "u"), (8, "jal"), (9, "sys")):
        js.append(vp.Job("riscv_enc." + nm, "riscv_enc.cpp", {"KIND": kind}, max_paths=400000, timeout=300 if tier == "quick" else 900, allow_partial=True, min_completed=2))
    # (a)/(b) encode -> decode -> encode fixpoint and tiling: the roundtrip harness (shared with C07), RV32/RVC from the bytes side
    for j in C07.jobs(tier, ["riscv"] if tier == "quick" else ["riscv", "msp430"]):
        js.append(j)
    # (a)/(b) from the assembler side: instruction forms with a symbolic operand
    from cpus import CPUS
    FX = [("msp430", "msp430", "mov.w #", ", r5"), ("msp430", "msp430", "add.w ", "(r4), r6"), ("msp430", "msp430", "mov.w &", ", r5"), ("msp430", "msp430", "jne ", ""), ("msp430", "msp430", "mov.w r5, ", ""),
          ("riscv", "riscv", "beq x10, x11, ", ""), ("riscv", "riscv", "bltu x5, x6, ", ""), ("riscv", "riscv", "jal x1, ", ""), ("riscv", "riscv", "addi x5, x6, ", ""), ("riscv", "riscv", "lui x5, ", ""),
          ("riscv", "riscv", "lw x5, ", "(x6)"), ("riscv", "riscv", "sw x5, ", "(x6)"), ("riscv", "riscv", "slli x5, x6, ", ""), ("riscv", "riscv", "jalr x1, x5, ", ""), ("riscv", "riscv", "auipc x5, ", ""),
          # further forms, each decided completely in seconds: other I-type/branch/load/store/shift rows and msp430 byte-immediate, signed jump, single-operand immediates
          ("riscv", "riscv", "xori x7, x8, ", ""), ("riscv", "riscv", "sltiu x9, x10, ", ""), ("riscv", "riscv", "bge x12, x13, ", ""), ("riscv", "riscv", "lbu x5, ", "(x6)"), ("riscv", "riscv", "sh x5, ", "(x6)"), ("riscv", "riscv", "srai x5, x6, ", ""),
          ("msp430", "msp430", "cmp.b #", ", r6"), ("msp430", "msp430", "jl ", ""), ("msp430", "msp430", "push #", ""), ("msp430", "msp430", "call #", "")]
    if tier == "thorough":
        FX += [("6502", "6502", "lda #", ""), ("6502", "6502", "bne ", ""), ("6502", "6502", "lda ", ",x"), ("z80", "z80", "ld a, ", ""), ("z80", "z80", "jr ", ""), ("z80", "z80", "ld hl, ", ""),
               ("8051", "8051", "mov A, #", ""), ("8051", "8051", "sjmp ", ""), ("avr8", "avr8", "ldi r16, ", ""), ("avr8", "avr8", "rjmp ", ""), ("stm8", "stm8", "ld A, #", ""), ("stm8", "stm8", "jra ", ""),
               ("6800", "6800", "ldaa #", ""), ("6809", "6809", "lda #", ""), ("68hc08", "68hc08", "lda #", ""), ("tms9900", "tms9900", "li r1, ", "")]
    for k, (key, cpu, pre, post) in enumerate(FX):
        c = CPUS[key]
        d = {"CPUNAME": '"%s"' % c["cpu"], "PRE": '"%s"' % pre, "POST": '"%s"' % post, "DISASM_FN": c["disasm"], "DISASM_HDR": '"%s"' % c["hdr"], "FLAGS": c["flags"], "BPA": 2 if key in ("avr8",) else 1}
        nm = (pre + "V" + post).replace(" ", "_").replace(",", "").replace("#", "i").replace("&", "a").replace("(", "L").replace(")", "R")
        js.append(vp.Job("asm_fixpoint.%s.%s" % (key, nm), "asm_fixpoint.cpp", d, max_paths=200000, timeout=300, min_completed=2, allow_partial=True))
    js.append(vp.Job("msp430_enc.jumps", "msp430_enc.cpp", {"KIND": 3}, max_paths=400000, timeout=420, min_completed=8))
    return js
def main(tier):
    return vp.check_property("C01", tier, jobs(tier),
        "(c) MSP430 core encodings: instruction texts are built from engine-enumerated choices (12 double-operand, 6 single-operand, 8 jump mnemonics; .b/.w; 7 source and 4 destination addressing modes; registers) "
        "and symbolic 16-bit operand values, assembled by the real two-pass assembler and compared word by word with a reference encoder written from the user's guide (constant generator, symbolic/absolute/indexed "
        "extension words, jump offsets). RV32I base encodings likewise, against a reference encoder written from the RISC-V manual's instruction formats. (a)/(b) fixpoint and tiling: the roundtrip harness (symbolic bytes -> disasm -> asm -> disasm -> asm) asserts that the disassembler consumes exactly what the assembler emitted "
        "and that re-assembling the disassembly reproduces the same bytes, for RV32I/RVC in the quick tier and further CPUs in the thorough tier.",
        ["MSP430: registers r4, r9, r14 (source) and r5, r15 (destination); operand values all 2^16; code at 0x8000; byte immediates written 0..255",
         "RV32I base: R-type, I-type ALU and jalr, shifts, loads, stores, branches, lui/auipc, jal, ecall/ebreak with SYMBOLIC register numbers (x0..x31 as x<n>), symbolic 12-bit / 20-bit immediates, shift amounts and branch/jump targets in decimal, code at 0x4000, compared with a reference encoder written from the manual's R/I/S/B/U/J formats; FENCE (assembler-specific operand syntax), ABI register names and CSR instructions are outside; instruction texts that the decoder cannot print are outside the fixpoint claim",
         "roundtrip window at a concrete address; partial_allowed jobs explore paths until their time budget"])
