import vp, C07
def jobs(tier):
    js = []
    # (c) manual encodings: MSP430 core
    for lo in range(0, 12, 2):
        js.append(vp.Job("msp430_enc.two.op%d" % lo, "msp430_enc.cpp", {"KIND": 1, "OPLO": lo, "OPN": 2}, max_paths=400000, timeout=420 if tier == "quick" else 2400, allow_partial=True, min_completed=20))
    js.append(vp.Job("msp430_enc.one", "msp430_enc.cpp", {"KIND": 2}, max_paths=400000, timeout=420 if tier == "quick" else 2400, allow_partial=True, min_completed=20))
    # (a)/(b) encode -> decode -> encode fixpoint and tiling: the roundtrip harness (shared with C07), RV32/RVC from the bytes side
    for j in C07.jobs(tier, ["riscv"] if tier == "quick" else ["riscv", "msp430", "6502", "z80", "8051", "avr8", "stm8"]):
        js.append(j)
    js.append(vp.Job("msp430_enc.jumps", "msp430_enc.cpp", {"KIND": 3}, max_paths=400000, timeout=420, min_completed=8))
    return js
def main(tier):
    return vp.check_property("C01", tier, jobs(tier),
        "(c) MSP430 core encodings: instruction texts are built from engine-enumerated choices (12 double-operand, 6 single-operand, 8 jump mnemonics; .b/.w; 7 source and 4 destination addressing modes; registers) "
        "and symbolic 16-bit operand values, assembled by the real two-pass assembler and compared word by word with a reference encoder written from the user's guide (constant generator, symbolic/absolute/indexed "
        "extension words, jump offsets). (a)/(b) fixpoint and tiling: the roundtrip harness (symbolic bytes -> disasm -> asm -> disasm -> asm) asserts that the disassembler consumes exactly what the assembler emitted "
        "and that re-assembling the disassembly reproduces the same bytes, for RV32I/RVC in the quick tier and further CPUs in the thorough tier.",
        ["MSP430: registers r4, r9, r14 (source) and r5, r15 (destination); operand values all 2^16; code at 0x8000; byte immediates written 0..255",
         "RV32I manual encodings are not checked against an independent reference encoder yet (only the assembler/disassembler fixpoint); instruction texts that the decoder cannot print are outside the claim",
         "roundtrip window at a concrete address; partial_allowed jobs explore paths until their time budget"])
