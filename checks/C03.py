import vp

def J(name, fmt, extra=None, nbases=4, nsym=2, readback=True, timeout=420, partial=False):
    d = {"FORMAT": fmt, "NBASES": nbases, "NSYM": nsym}
    if readback: d["READBACK"] = None
    d.update(extra or {})
    return vp.Job("fileformats." + name, "fileformats.cpp", d, max_paths=300000, timeout=timeout, min_completed=3, allow_partial=partial)

def jobs(tier):
    t = tier == "thorough"
    ns = 3 if t else 2
    to = 1500 if t else 420
    js = [J("hex", 1, nbases=6 if t else 5, nsym=ns, timeout=to, partial=t), J("srec16", 2, {"SRECSIZE": 0}, nbases=6 if t else 5, nsym=ns, timeout=to, partial=t), J("srec24", 2, {"SRECSIZE": 1}, nbases=3, nsym=ns, timeout=to, partial=t),
          J("srec32", 2, {"SRECSIZE": 2}, nbases=6 if t else 5, nsym=ns, timeout=to, partial=t), J("bin", 3, nbases=5, nsym=ns, timeout=to, partial=t), J("wdc", 4, nbases=3, nsym=ns, timeout=to, partial=t)]
    return js

def main(tier):
    return vp.check_property("C03", tier, jobs(tier),
        "The real writers (write_hex/write_srec/write_bin/write_wdc) run on a real Memory image into the engine's in-memory file; an independent decoder written "
        "from the format specifications (Intel HEX, Motorola S-record, WDC binary records, raw binary) decodes the file with symbolic data bytes and Z3 decides that "
        "it yields exactly the image, that every checksum/length is valid and that nothing else is present; the real readers then load the file back (symbolic hex digits fork on digit class).",
        ["image: two segments (3 + 2 bytes, gap 1 or 21) or one run of 20 bytes; base address from {0, 0xfffe, 0x12345, 0xfffffe, 0x7ffffffd, 0xfffffff0} (64 KiB / 24-bit boundary crossings, >16/24-bit addresses); NSYM data bytes symbolic, the rest distinct constants",
         "larger images, more segments: outside the bound (writer loops are uniform in the byte index)",
         "S-record header (timestamp) content is not compared (excluded by the property); time()/localtime() return fixed values",
         "WDC records carry 24-bit addresses (65816 address space): bases above 0xffffff are not presented to write_wdc nor to the fixed 24-bit S2 mode (SREC_24 CPUs have 24-bit address spaces)", "ELF/UF2/Amiga/Mach-O writers are not covered by this check yet"])
