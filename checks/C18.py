import vp
PROGS = {
 # name: (source format with %u a(16 bit) %u b %u c %u a, WORDS, BPA, LOW, EXPECT_BYTES, gap offsets)
 "msp430": (".msp430\\n.org 0x200\\nstart:\\n  mov.w &%u, r5\\n  add.w r5, r6\\n  .db %u, %u, 3, 4\\n  .dw %u\\n  jmp start\\n", 1, 1, 0x200, 14, ""),
 # an instruction after an odd number of data bytes: the assembler pads with one 0 byte (offset 11), which is not program content
 "msp430_odd": (".msp430\\n.org 0x200\\nstart:\\n  mov.w &%u, r5\\n  add.w r5, r6\\n  .db %u, %u, 3\\n  .dw %u\\n  jmp start\\n", 1, 1, 0x200, 13, "11,"),
 "6502":   (".6502\\n.org 0x300\\n  lda #%u & 255\\n  sta 0x10\\n.db %u, %u\\n  jmp %u\\n", 0, 1, 0x300, 9, ""),
 # data that is not produced by .db/.dw: .data_fill alone, wide/string directives, an included binary file, a reserved gap
 "6502_fill":  (".6502\\n.org 0x300\\n  lda #%u & 255\\n.data_fill %u, 6\\n  ldx #%u\\n  jmp %u\\n", 0, 1, 0x300, 13, ""),
 "6502_wide":  (".6502\\n.org 0x300\\n.dc16 %u\\n.dc32 %u\\n.ascii \\\"xy\\\"\\n.asciiz \\\"z\\\"\\n.dq 0x1122334455667788\\n.db %u\\n  jmp %u\\n", 0, 1, 0x300, 22, ""),
 "6502_binfile": (".6502\\n.org 0x300\\n  lda #%u & 255\\n.binfile \\\"blob.bin\\\"\\n  ldx #%u + %u & 255\\n  jmp %u\\n", 0, 1, 0x300, 10, ""),
 "6502_resb":  (".6502\\n.org 0x300\\n.db %u & 255\\n.resb 3\\n.db %u, %u\\n  jmp %u\\n", 0, 1, 0x300, 6, "1,2,3,"),
 "z80":    (".z80\\n.org 0x100\\n  ld hl, %u\\n  ld a, %u\\n.db %u\\n  jp %u\\n", 0, 1, 0x100, 9, ""),
}
def jobs(tier):
    js = []
    for n, (fmt, words, bpa, low, nbytes, gaps) in PROGS.items():
        d = {"PROGRAM_FMT": '"%s"' % fmt, "WORDS": words, "BPA": bpa, "LOW": low, "EXPECT_BYTES": nbytes, "GAPS": gaps}
        js.append(vp.Job("listing." + n, "listing.cpp", d, extra_bc=["naken_asm"], max_paths=100000, timeout=600, min_completed=1, max_steps=30000000))
    return js
def main(tier):
    return vp.check_property("C18", tier, jobs(tier),
        "naken_asm's real main() assembles a small program whose data bytes and operand values are symbolic with -l and -type bin on the in-memory file system; the harness parses the listing "
        "(instruction lines, continuation lines, the 'data sections' dump) with branch-free hex arithmetic and Z3 decides that every byte shown equals the byte at that address in the output file and "
        "that every written byte of the output is listed exactly once.",
        ["three CPUs with the two listing column grammars that exist (word-oriented: msp430; byte-oriented: 6502, z80); other list_output_<cpu> formatters are not covered",
         "symbol table and low/high summary of the listing are not compared", "programs are the templates in checks/C18.py with three symbolic values"])
