import vp
PROGS = {
 # name: (source format with %u a(16 bit) %u b %u c %u a, WORDS, BPA, LOW, EXPECT_BYTES, gap offsets)
 "msp430": (".msp430\\n.org 0x200\\nstart:\\n  mov.w &%u, r5\\n  add.w r5, r6\\n  .db %u, %u, 3, 4\\n  .dw %u\\n  jmp start\\n", 1, 1, 0x200, 14, ""),
 # an instruction after an odd number of data bytes: the assembler pads with one 0 byte (offset 11), which is not program content
 "msp430_odd": (".msp430\\n.org 0x200\\nstart:\\n  mov.w &%u, r5\\n  add.w r5, r6\\n  .db %u, %u, 3\\n  .dw %u\\n  jmp start\\n", 1, 1, 0x200, 13, "11,"),
 "6502":   (".6502\\n.org 0x300\\n  lda #%u & 255\\n  sta 0x10\\n.db %u, %u\\n  jmp %u\\n", 0, 1, 0x300, 9, ""),
 "z80":    (".z80\\n.org 0x100\\n  ld hl, %u\\n  ld a, %u\\n.db %u\\n  jp %u\\n", 0, 1, 0x100, 9, ""),
}
def jobs(tier):
    js = []
    for n, (fmt, words, bpa, low, nbytes, gaps) in PROGS.items():
        d = {"PROGRAM_FMT": '"%s"' % fmt, "WORDS": words, "BPA": bpa, "LOW": low, "EXPECT_BYTES": nbytes, "GAPS": gaps}
        js.append(vp.Job("listing." + n, "listing.cpp", d, extra_bc=["naken_asm"], max_paths=100000, timeout=600, min_completed=1, max_steps=30000000))
    return js
def main(tier):
    return vp.check_property("C18", tier, jobs(tier),
        "naken_asm's real main() assembles a small program whose data bytes and operand values are symbolic with -l and -type bin on the in-memory file system; the harness parses the listing "
        "(instruction lines, continuation lines, the 'data sections' dump) with branch-free hex arithmetic and Z3 decides that every byte shown equals the byte at that address in the output file and "
        "that every written byte of the output is listed exactly once.",
        ["three CPUs with the two listing column grammars that exist (word-oriented: msp430; byte-oriented: 6502, z80); other list_output_<cpu> formatters are not covered",
         "symbol table and low/high summary of the listing are not compared", "programs are the templates in checks/C18.py with three symbolic values"])
