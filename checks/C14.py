import vp
def jobs(tier, parts=None):
    js = []
    for part in (parts if parts is not None else range(1, 16)):
        # partition by the opcode's high nibble: 1 = single-operand/RETI, 2,3 = jumps, 4..15 = double-operand instructions
        js.append(vp.Job("msp430_ref.op%x" % part, "msp430_ref.cpp", {"PART": part}, max_paths=500000, timeout=420 if tier == "quick" else 1500,
                         allow_partial=True, min_completed=4, max_violations=60))
    js.append(vp.Job("msp430_run.ret", "msp430_run.cpp", {}, max_paths=100000, timeout=420, min_completed=2, allow_partial=True))
    js.append(vp.Job("msp430_run.break_io", "msp430_run.cpp", {"BREAK_IO": None}, max_paths=100000, timeout=420, min_completed=2, allow_partial=True))
    return js
def main(tier):
    return vp.check_property("C14", tier, jobs(tier),
        "One run(-1, step=1) of the real SimulateMsp430 from a fully symbolic state (16 symbolic registers incl. PC/SP/SR, lazy symbolic memory so that the opcode and its extension words "
        "are symbolic) is compared with an independent reference step written from the MSP430 family user's guide (27 core instructions, 7 source / 4 destination modes, constant generator, "
        "byte/word, auto-increment, C/Z/N/V per instruction incl. DADD/RRC/RRA/SXT/SWPB, PUSH/CALL/RETI stack effects, 8 jump conditions); Z3 decides equality of all registers, status bits, "
        "memory effects and of the legal/illegal classification on every path; 15 jobs partition the opcode space by the high nibble.",
        ["PC and SP word aligned, R3 reads as constant generator; word accesses at odd addresses are outside the claim",
         "outside the claim (family-dependent or unspecified in the guide): PUSH.B (upper stack byte), PUSH/CALL with SP as operand, constants/immediates/PC/SR as read-modify-write operand of RRC/RRA/SWPB/SXT, "
         "R3 as destination or destination index, SR as destination of a flag-setting instruction, byte writes to PC, byte forms of SWPB/SXT/CALL, DADD with non-BCD digits (and its V flag), opcodes 0x1301-0x137f",
         "display off (show=false); -run loop: one routine (mov/add immediates symbolic, one call, final ret) assembled by the real assembler: termination at the final ret, register values, break_io exit status; cycle totals are recorded but not asserted",
         "partial_allowed: each partition explores paths in DFS order until its time budget"])
