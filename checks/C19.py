import vp
def jobs(tier):
    js = []
    cpus = ["msp430", "avr8", "6800", "mips32"] if tier == "quick" else ["msp430", "avr8", "6800", "mips32", "propeller", "68000", "z80", "pic14"]
    for cpu in cpus:
        for w in (8, 16, 32):
            for aset in (0, 1, 2):
                if aset == 2 and w == 32: continue
                js.append(vp.Job("util_mem.%s.w%d.a%d" % (cpu, w, aset), "util_mem.cpp", {"CPUNAME": '"%s"' % cpu, "WIDTH": w, "ADDRSET": aset}, max_paths=200000, timeout=400, min_completed=4, allow_partial=True))
    return js
def main(tier):
    return vp.check_property("C19", tier, jobs(tier),
        "The real UtilContext::write8/16/32 (with get_address/get_num/get_hex) run on a command line built from an engine-enumerated address (4 classes x 3 spellings: decimal, 0x, h-suffix), "
        "and two symbolic values (3 spellings); the real Memory is then read directly (byte order, address * bytes_per_address, neighbours unchanged) and through the real print8/16/32 whose captured "
        "stdout is parsed with branch-free hex arithmetic; Z3 decides all equalities for all values.",
        ["CPUs: msp430 (1 byte/address, little endian), avr8 (2 bytes/address), 6800 (big endian), mips32 (alignment 4); thorough adds propeller, 68000, z80, pic14",
         "address classes {0, 0x20, 0xfffc, 0x12344, 0x102 (16-bit aligned only; 8/16-bit commands)}; symbol-name addresses, range forms other than a-b, the disasm/asm/set/run commands and -address/-set_pc are not covered",
         "partial_allowed: paths explored until the time budget"])
