import vp
def jobs(tier):
    js = []
    cpus = ["msp430", "avr8", "6800"] if tier == "quick" else ["msp430", "avr8", "6800", "mips32", "propeller", "68000", "z80", "pic14"]
    for cpu in cpus:
        for w in (8, 16, 32):
            js.append(vp.Job("util_mem.%s.w%d" % (cpu, w), "util_mem.cpp", {"CPUNAME": '"%s"' % cpu, "WIDTH": w}, max_paths=200000, timeout=400, min_completed=4, allow_partial=True))
    return js
def main(tier):
    return vp.check_property("C19", tier, jobs(tier), "x", [])
