import vp
def jobs(tier):
    js = [vp.Job("symbols.api%d" % n, "symbols.cpp", {"MODE": 1, "NOPS": n}, max_paths=2000000, timeout=900 if tier == "quick" else 3000, min_completed=10) for n in ((3, 4) if tier == "quick" else (3, 4, 5))]
    js.append(vp.Job("symbols.pools", "symbols.cpp", {"MODE": 2}, max_paths=1000, timeout=600, min_completed=3, max_steps=40000000))
    for t in range(1, 9):
        js.append(vp.Job("symbols.text%d" % t, "symbols.cpp", {"MODE": 3, "T": t}, max_paths=10000, timeout=600, min_completed=1))
    return js

def main(tier):
    return vp.check_property("C11", tier, jobs(tier),
        "(1) every sequence of NOPS operations (label definition, .set, scope start/end; names from a 2-name alphabet; symbolic 32-bit addresses) on the real Symbols class is compared, "
        "step by step, with an association-list model of the scoping rules; (2) entries beyond one 32 KiB pool are looked up, counted and iterated; (3) source templates with forward/backward "
        "references, scopes, shadowing, duplicates, .set and .func run through the real two-pass assembler; Z3 decides the value assertions for all addresses/values.",
        ["operation sequences up to NOPS (4 quick, 5 thorough) from an empty table: longer histories are outside the bound",
         "pool boundary: 126 concrete 250-character names fill the first pool, then 1..3 further pairs",
         "text template 8 (label + symbolic addend): addends below 0xfe00 so that the sum fits .dc16", "ELF export of symbols is not covered by this check"])
