import vp
SIMS = {
 "msp430": ("SimulateMsp430", "simulate/msp430.h"), "6502": ("Simulate6502", "simulate/6502.h"), "65816": ("Simulate65816", "simulate/65816.h"),
 "8008": ("Simulate8008", "simulate/8008.h"), "1802": ("Simulate1802", "simulate/1802.h"), "ebpf": ("SimulateEbpf", "simulate/ebpf.h"),
 "f100_l": ("SimulateF100L", "simulate/f100_l.h"), "lc3": ("SimulateLc3", "simulate/lc3.h"), "mips": ("SimulateMips", "simulate/mips.h"),
 "riscv": ("SimulateRiscv", "simulate/riscv.h"), "stm8": ("SimulateStm8", "simulate/stm8.h"), "tms1000": ("SimulateTms1000", "simulate/tms1000.h"),
 "tms9900": ("SimulateTms9900", "simulate/tms9900.h"), "z80": ("SimulateZ80", "simulate/z80.h"), "avr8": ("SimulateAvr8", "simulate/avr8.h"),
}
def jobs(tier, names=None, parts=None):
    js = []
    for n in (names or sorted(SIMS)):
        cls, hdr = SIMS[n]
        d = {"SIMCLASS": cls, "SIMHDR": '"%s"' % hdr}
        if n == "avr8": d["SIM_AVR8"] = None
        if n == "8008": d["SIM_8008"] = None
        if n == "1802": d["SIM_1802"] = None
        if n == "tms1000": d["SIM_TMS1000"] = None
        if n in ("6502", "65816", "8008", "1802", "stm8", "tms1000", "z80"): d["CONCRETIZE_READS"] = 2 if n in ("z80", "stm8") else 1
        js.append(vp.Job("sim_step.%s" % n, "sim_step.cpp", d, max_paths=300000, timeout=300 if tier == "quick" else 1800, allow_partial=True, min_completed=1 if n in ('ebpf', 'tms9900') else 5))
    return js
def main(tier):
    return vp.check_property("C15", tier, jobs(tier),
        "For each simulator one run(-1, step=1) is executed from a fully symbolic state: every data member of the simulator class (registers, flags, PC, SP, private RAM) is symbolic, "
        "memory is a lazy cell model whose first read of an address yields a fresh symbolic byte (so opcode and operand bytes are symbolic); the engine's object-bounds check applies to every "
        "load/store (register files, tables), division and shift operands are decided by Z3, the step budget bounds termination, the return value is asserted to be 0 or -1, and the step is "
        "executed a second time from the same state (self-composition) to decide that registers and memory effects are identical.",
        ["Memory::read8/write8 replaced by the lazy cell model (the simulated address space itself is C05/C19's subject); a symbolic address is case-split against the known cells",
         "for the table-driven 8-bit decoders (6502, 65816, 8008, 1802, stm8, tms1000, z80) the engine enumerates the opcode byte(s) (all solver-feasible values) instead of carrying 256-way selections",
         "a step that reads more than 48 distinct initial memory cells or writes more than 48 bytes (Z80 block instructions with a long repeat count) is outside the bound (cover tag outside-bound:*)",
         "a path with a load/store whose symbolic offset has more than 1024 feasible targets (AVR8 data space indexed by an unconstrained pointer) is given up and counted under solver_unknown_paths",
         "partial_allowed: each job explores paths in DFS order until its time budget; unexplored paths are reported as pending, not as held",
         "representation invariants assumed for the havoced state: 8008 stack index <= 7; 1802 4-bit selectors P, X, N, I <= 15; tms1000 register widths (x<=3, y,a,pa,pb<=15, pc<=63); avr8 heap pointer/size fields keep their constructed values", "stdout of the simulators is not modelled (sink); serial I/O hooks (serial_in/out NULL) as constructed by init()"])
