import vp

def J(name, mode, directive=None, extra=None, cpu=None, bpa=1, **kw):
    d = {"MODE": mode}
    if directive: d["DIRECTIVE"] = '"%s"' % directive
    if cpu: d["CPUNAME"] = '"%s"' % cpu; d["BPA"] = bpa
    d.update(extra or {})
    return vp.Job("directives." + name, "directives.cpp", d, max_paths=200000, timeout=kw.get("timeout", 400), min_completed=2)

def jobs(tier):
    js = [J("db", 1, ".db"), J("dc8", 1, ".dc8"), J("dw", 2, ".dw"), J("dc16", 2, ".dc16"),
          J("dl", 3, ".dl"), J("dc32", 3, ".dc32"), J("dd", 3, ".dd"), J("dc64", 4, ".dc64"), J("dq", 4, ".dq"),
          J("resb", 5, ".resb", {"RESSIZE": 1}), J("resw", 5, ".resw", {"RESSIZE": 2}),
          J("align_bytes4", 6, ".align_bytes", {"ALIGNTXT": '"4"', "ALIGNBYTES": 4}),
          J("align_bytes16", 6, ".align_bytes", {"ALIGNTXT": '"16"', "ALIGNBYTES": 16}),
          J("align_bits32", 6, ".align", {"ALIGNTXT": '"32"', "ALIGNBYTES": 4}),
          J("align_bits16", 6, ".align", {"ALIGNTXT": '"16"', "ALIGNBYTES": 2}),
          J("ascii", 7, ".ascii", {"ZTERM": 0}), J("asciiz", 7, ".asciiz", {"ZTERM": 1}), J("db_string", 7, ".db", {"ZTERM": 0}),
          J("org_overlap", 8),
          J("avr8.dw", 2, ".dw", cpu="avr8", bpa=2), J("avr8.resb", 5, ".resb", {"RESSIZE": 1}, cpu="avr8", bpa=2),
          J("avr8.db", 1, ".db", cpu="avr8", bpa=2),
          J("propeller.resb", 5, ".resb", {"RESSIZE": 1}, cpu="propeller", bpa=4), J("ebpf.resb", 5, ".resb", {"RESSIZE": 1}, cpu="ebpf", bpa=8),
          J("pic14.resw", 5, ".resw", {"RESSIZE": 2}, cpu="pic14", bpa=2)]
    if tier == "thorough":
        js += [J("propeller.dc32", 3, ".dc32", cpu="propeller", bpa=4), J("ebpf.dc64", 4, ".dc64", cpu="ebpf", bpa=8), J("pic14.dw", 2, ".dw", cpu="pic14", bpa=2), J("z80.db", 1, ".db", cpu="z80"),
               J("6502.dw", 2, ".dw", cpu="6502")]
    return js

def main(tier):
    return vp.check_property("C05", tier, jobs(tier),
        "A small source text is built around each directive with its numeric operands symbolic (rendered as exact decimal digits), then assembled by the real "
        "two-pass flow (tokens_get, eval_expression, parse_directives, directive handlers, Memory::write); Z3 decides for all operand values that exactly the "
        "denoted bytes appear at the location counter in the selected byte order, that nothing else is written, that the counter advances correctly and that out-of-range values are rejected.",
        ["operand values: all 2^32 (2^64 for .dc64); reservation counts from the concrete classes {0,1,37,70001}, alignment amounts concrete; location: three concrete .org values (0x20, 0xffff = across a 64 KiB page boundary, 0x12fffe), both byte orders",
         "directive sequences longer than the templates follow by induction on (location counter, image) and are outside the bound",
         "numbers are written in decimal; other literal notations are covered by C04's literal check"])
