import vp
def J(name, fmt, sympos=None, width=4, timeout=240, steps=30000000, extra=None):
    d = {"FORMAT": fmt}
    d.update(extra or {})
    if sympos is not None: d["SYMPOS"] = sympos; d["SYMWIDTH"] = width
    return vp.Job("robust_util." + name, "robust_util.cpp", d, max_paths=200000, timeout=timeout, min_completed=1, max_steps=steps, allow_partial=True, max_violations=30)
def jobs(tier):
    js = [J("hex.len_type", 1, "1,2,7,8"), J("hex.addr_data", 1, "3,4,9,17"), J("hex.structure", 1, "0,18,19,20"),
          J("srec.type_len", 2, "18,19,20,21"), J("srec.addr_data", 2, "22,25,26,34"), J("srec.term", 2, "36,37,38,39"),
          J("ti_txt.a", 3, "0,1,5,6"), J("ti_txt.b", 3, "8,9,18,25"),
          J("wdc", 4), J("uf2", 5), J("bin", 6),
          # ELF32 header: e_shoff @32 (4), e_shentsize @46, e_shnum @48, e_shstrndx @50 (2 bytes each)
          J("elf.shoff", 7, "32", 4), J("elf.shentsize", 7, "46", 2), J("elf.shnum", 7, "48", 2), J("elf.shstrndx", 7, "50", 2), J("elf.ident", 7, "4,16", 2)]
    # offset/size of each section header symbolic, in an ELF32 (msp430) and an ELF64 (arm64) skeleton
    for sec in (1, 2, 3, 4):
        js.append(J("elf32.shdr%d" % sec, 7, extra={"SHDR_SECTION": sec}))
        js.append(J("elf64.shdr%d" % sec, 7, extra={"SHDR_SECTION": sec, "ELFCPU": "CPU_TYPE_ARM64"}))
    return js
def main(tier):
    return vp.check_property("C17", tier, jobs(tier),
        "The real object-file readers (read_hex, read_srec, read_ti_txt, read_wdc, read_uf2, read_bin, read_elf) run on the engine's in-memory file system on well-formed skeleton files in which "
        "selected characters (text formats) or header words (binary formats: addresses, lengths, counts, offsets, entry sizes, string-table indices, ELF class) are symbolic; the ELF skeleton is "
        "produced by the repository's own write_elf.  Every load/store is bounds-checked against its object (Uf2Block.data[476], name[128], e_ident[16] ...), the step budget bounds loops driven by "
        "wide length fields, and the number of image bytes written is asserted to be bounded by the file.",
        ["text formats: 4 arbitrary symbolic bytes at the listed positions of one valid record (checks/C17.py); binary formats: the listed header fields symbolic over their full width (WDC length from the classes {0,1,3,4,100,0xffffff})",
         "the Memory image is replaced by a write counter (symbolic load addresses are C03/C05/C19's subject)",
         "Mach-O and Amiga readers, naken_util's command loop and larger/multi-record files are not covered by this check yet",
         "partial_allowed: the path budget bounds each job"])
