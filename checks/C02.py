import vp
# (cpu, form name, text before operand, text after operand, max operand value, bytes per address, org)
FORMS = [
 ("msp430", "mov_imm", "mov.w #", ", r5", 65535, 1), ("msp430", "add_imm", "add.w #", ", r6", 65535, 1), ("msp430", "cmpb_imm", "cmp.b #", ", r7", 255, 1),
 ("msp430", "mov_abs", "mov.w &", ", r5", 65535, 1), ("msp430", "push_imm", "push #", "", 65535, 1), ("msp430", "mov_idx", "mov.w ", "(r4), r5", 65535, 1), ("msp430", "add_idx_dst", "add.w r6, ", "(r7)", 65535, 1),
 ("6502", "lda", "lda ", "", 65535, 1), ("6502", "sta_x", "sta ", ",x", 65535, 1), ("6502", "ldx_y", "ldx ", ",y", 65535, 1),
 ("65816", "lda", "lda ", "", 65535, 1),
 ("6800", "ldaa", "ldaa ", "", 65535, 1), ("68hc08", "lda", "lda ", "", 65535, 1),
 ("stm8", "ld_a", "ld A, ", "", 65535, 1),
 ("riscv", "li", "li t0, ", "", 0xffffffff, 1), ("mips32", "li", "li $t0, ", "", 0xffffffff, 1),
 ("z80", "ld_a_n", "ld a, ", "", 255, 1),
 ("riscv", "call", "call ", "", 0x3fff, 1), ("riscv", "tail", "tail ", "", 0x3fff, 1), ("riscv", "j", "j ", "", 0xffff, 1),
 ("6809", "lda_x", "lda ", ",x", 65535, 1), ("6809", "lda", "lda ", "", 65535, 1), ("6809", "ldx_y", "ldx ", ",y", 65535, 1), ("6809", "jmp", "jmp ", "", 65535, 1),
 ("68000", "jmp", "jmp ", "", 0xffffff, 1), ("68000", "move_abs", "move.w ", ", d0", 0xffffff, 1),
 ("8051", "ljmp", "ljmp ", "", 65535, 1), ("z80", "jp", "jp ", "", 65535, 1),
 # round 2: sibling mnemonics / addressing modes whose size is chosen by the same pass-1 logic through other table rows
 ("msp430", "call_imm", "call #", "", 65535, 1), ("msp430", "sub_imm", "sub.w #", ", r8", 65535, 1), ("msp430", "bis_abs_dst", "bis.w r5, &", "", 65535, 1), ("msp430", "cmp_idx", "cmp.w ", "(r9), r10", 65535, 1),
 ("6502", "sta", "sta ", "", 65535, 1), ("6502", "cmp_x", "cmp ", ",x", 65535, 1), ("6502", "ldy_x", "ldy ", ",x", 65535, 1), ("6502", "adc", "adc ", "", 65535, 1),
 ("65816", "sta", "sta ", "", 65535, 1), ("6800", "staa", "staa ", "", 65535, 1), ("6800", "ldab", "ldab ", "", 65535, 1),
 ("stm8", "ldw_x", "ldw X, ", "", 65535, 1), ("6809", "sta", "sta ", "", 65535, 1), ("6809", "ldb_x", "ldb ", ",x", 65535, 1), ("6809", "jsr", "jsr ", "", 65535, 1),
 ("riscv", "jal", "jal ", "", 0xffff, 1),
]
QUICK = {"msp430", "6502", "stm8", "65816", "6800", "riscv", "6809"}

def jobs(tier):
    js = []
    for cpu, name, pre, post, vmax, bpa in FORMS:
        if tier == "quick" and (cpu not in QUICK or name == "li"): continue      # li: 32-bit operand space, ~9 min, thorough only
        for opt in (0, 1):
            d = {"CPUNAME": '"%s"' % cpu, "PRE": '"%s"' % pre, "POST": '"%s"' % post, "VMAX": "%du" % vmax, "BPA": bpa}
            if opt: d["OPTIMIZE"] = None
            js.append(vp.Job("twopass.%s.%s%s" % (cpu, name, ".opt" if opt else ""), "twopass.cpp", d, max_paths=200000, timeout=600, min_completed=2))
    return js

def main(tier):
    return vp.check_property("C02", tier, jobs(tier),
        "A program with a variable-length instruction form used twice - once with an operand known in pass 1 (backward .set) and once with a forward reference - is run through the real "
        "two-pass flow with both operand values symbolic; data markers after each instruction show where pass 2 actually places the following bytes; Z3 decides for all values that these "
        "positions equal the label values recorded in pass 1 (with and without -optimize).",
        ["operand values: all values up to the form's maximum (16-bit for 8/16-bit CPUs, 32-bit for li pseudo-instructions), rendered in decimal; forms listed in checks/C02.py",
         "symbols are defined with .set (same lookup path as labels) so that their values can be symbolic without making the location counter symbolic",
         "conditionals/macros depending on later symbols are excluded by the property"])
