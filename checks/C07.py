import vp
from cpus import CPUS

QUICK = ["msp430"]

def jobs(tier, names=None, prop="C07"):
    js = []
    names = names or (QUICK if tier == "quick" else [n for n in sorted(CPUS) if CPUS[n]["cpu"]])
    for n in names:
        c = CPUS[n]
        base = int(c["base"], 16)
        d = {"CPU": '"%s"' % c["cpu"], "DISASM_FN": c["disasm"], "DISASM_HDR": '"%s"' % c["hdr"], "NBYTES": c["nbytes"], "BASE": base, "ORG": base,
             "MINLEN": c["minlen"], "MAXLEN": c["maxlen"], "FLAGS": c["flags"], "ENDIAN": c["endian"]}
        js.append(vp.Job("roundtrip.%s" % n, "roundtrip.cpp", d, max_paths=100000 if tier == "quick" else 1000000,
                         timeout=420 if tier == "quick" else 2400, allow_partial=True, min_completed=20))
    return js

def main(tier):
    return vp.check_property("C07", tier, jobs(tier),
        "bytes (symbolic window) -> real disasm_<cpu> -> text (exact symbolic digits) -> real tokenizer, eval_expression, parse_instruction_<cpu>, add_bin (two passes as main() runs them) -> bytes -> disasm again; "
        "Z3 decides on every path that the second disassembly equals the first, that the disassembler consumes exactly what the assembler emitted, and that re-assembling is a fixpoint.",
        ["instruction window of NBYTES symbolic bytes at a concrete address (BASE); PC-relative forms are therefore checked at that address only",
         "exact string equality of the two disassemblies (the same formatter prints both, so equal values print equally)",
         "partial_allowed jobs: first max_paths paths in DFS order"])
