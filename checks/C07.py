import vp
from cpus import CPUS

QUICK = ["msp430"]

def jobs(tier, names=None, prop="C07"):
    js = []
    names = names or (QUICK if tier == "quick" else ["msp430", "riscv", "6502", "z80", "8051"])
    for n in names:
        c = CPUS[n]
        base = int(c["base"], 16)
        d = {"CPU": '"%s"' % c["cpu"], "DISASM_FN": c["disasm"], "DISASM_HDR": '"%s"' % c["hdr"], "NBYTES": c["nbytes"], "BASE": base, "ORG": base,
             "MINLEN": c["minlen"], "MAXLEN": c["maxlen"], "FLAGS": c["flags"], "ENDIAN": c["endian"], "NORMBITS": 16 if n in ("msp430", "6502", "65816", "6800", "6809", "68hc08", "8008", "8048", "8051", "z80", "stm8", "avr8", "tms9900", "pdp11", "lc3", "1802") else 32}
        if n in ("riscv", "msp430"): d["STRIP_ANNOT"] = None
        # the opcode space is partitioned by the high nibble of the opcode-bearing byte so that all cores work on one CPU
        pb = {"msp430": 1, "avr8": 1, "tms9900": 0, "riscv": 0, "6502": 0, "z80": 0, "8051": 0, "stm8": 0, "68000": 0, "pdp11": 1, "lc3": 0, "6800": 0, "6809": 0, "68hc08": 0}.get(n)
        if n == "riscv":
            # RV32I major opcodes (bits 6..0 of the first byte) and the three compressed quadrants, one job each
            parts = [("load", 0x7f, 0x03), ("opimm", 0x7f, 0x13), ("auipc", 0x7f, 0x17), ("store", 0x7f, 0x23), ("op", 0x7f, 0x33), ("lui", 0x7f, 0x37),
                     ("branch", 0x7f, 0x63), ("jalr", 0x7f, 0x67), ("jal", 0x7f, 0x6f), ("fence", 0x7f, 0x0f), ("system", 0x7f, 0x73), ("c0", 3, 0), ("c1", 3, 1), ("c2", 3, 2)]
            for nm, mask, val in parts:
                dd = dict(d, PART_BYTE=0, PART_MASK=mask, PART_VAL=val)
                js.append(vp.Job("roundtrip.riscv.%s" % nm, "roundtrip.cpp", dd, max_paths=100000 if tier == "quick" else 1000000,
                                 timeout=240 if tier == "quick" else 700, allow_partial=True, min_completed=0, render_classes=2))
            continue
        if n == "msp430":
            # operands relative to the program counter (symbolic mode) are where address arithmetic happens: one job for
            # symbolic destinations (Ad=1, dst=PC) and one for symbolic sources (As=1, src=PC), all opcodes
            # and the six-byte instructions (two extension words: the second operand's address depends on how many
            # bytes the first one consumed): indexed/symbolic/absolute source, and immediate source, with an Ad=1 destination
            for nm, byte, mask, val, p2 in (("pcrel_dst", 0, 0x8f, 0x80, None), ("pcrel_src", 1, 0x0f, 0x00, (0, 0x30, 0x10)),
                                            ("len6_idx", 0, 0xb0, 0x90, None), ("len6_imm", 0, 0xb0, 0xb0, (1, 0x0f, 0x00))):
                dd = dict(d, PART_BYTE=byte, PART_MASK=mask, PART_VAL=val)
                if p2: dd["PART2_BYTE"], dd["PART2_MASK"], dd["PART2_VAL"] = p2
                if nm.startswith("len6"): dd.update(NARROW_EXT=5, NARROW_FROM=2, NARROW_UNIT=2, NARROW_LOW=0)
                js.append(vp.Job("roundtrip.msp430.%s" % nm, "roundtrip.cpp", dd, max_paths=100000 if tier == "quick" else 1000000,
                                 timeout=240 if tier == "quick" else 700, allow_partial=True, min_completed=0, render_classes=2))
        if n == "msp430" and tier != "quick":
            # breadth: every opcode nibble again with narrow extension words (0..5): no digit-class forks, many more forms
            for part in range(16):
                dd = dict(d, PART_BYTE=1, PART=part, NARROW_EXT=5, NARROW_FROM=2, NARROW_UNIT=2, NARROW_LOW=0)
                js.append(vp.Job("roundtrip.msp430.narrow.p%x" % part, "roundtrip.cpp", dd, max_paths=100000 if tier == "quick" else 1000000,
                                 timeout=240 if tier == "quick" else 700, allow_partial=True, min_completed=0, render_classes=2))
        if pb is None:
            js.append(vp.Job("roundtrip.%s" % n, "roundtrip.cpp", d, max_paths=100000 if tier == "quick" else 1000000,
                             timeout=300 if tier == "quick" else 2400, allow_partial=True, min_completed=5))
        else:
            for part in range(16):
                dd = dict(d, PART_BYTE=pb, PART=part)
                js.append(vp.Job("roundtrip.%s.p%x" % (n, part), "roundtrip.cpp", dd, max_paths=100000 if tier == "quick" else 1000000,
                                 timeout=240 if tier == "quick" else 700, allow_partial=True, min_completed=0, render_classes=2))
    return js

def main(tier):
    return vp.check_property("C07", tier, jobs(tier),
        "bytes (symbolic window) -> real disasm_<cpu> -> text (exact symbolic digits) -> real tokenizer, eval_expression, parse_instruction_<cpu>, add_bin (two passes as main() runs them) -> bytes -> disasm again; "
        "Z3 decides on every path that the second disassembly equals the first, that the disassembler consumes exactly what the assembler emitted, and that re-assembling is a fixpoint.",
        ["msp430 also: partitions for PC-relative destinations / sources and for the six-byte instructions (two extension words; extension words symbolic in 0..5 there so that no path is spent on digit classes), thorough: every opcode nibble again with narrow extension words",
         "instruction window of NBYTES symbolic bytes at a concrete address (BASE); PC-relative forms are therefore checked at that address only",
         "the two disassemblies are compared character by character with digit runs (decimal, 0x hex) compared by value, so that #0 and #0x0000 are the same operand",
         "partial_allowed jobs: first max_paths paths in DFS order"])
