import vp
PROGS = {
 "msp430_basic": ".msp430\\n.org 0x100\\nstart:\\n  mov.w #5, r4\\n  .db 1, 2\\n  jmp start\\n",
 "cond_macro": ".msp430\\n.define X 1\\n.if X == 1\\n  mov.w #5, r4\\n.else\\n  nop\\n.endif\\n.macro M(a)\\n  .db a\\n.endm\\nM(3)\\n",
 "z80": ".z80\\n.org 0x100\\n  ld a, 5\\n  jr nz, l\\nl: ret\\n  .dw 0x1234\\n",
 "data_expr": ".msp430\\n.dc32 1 + 2 * 3, (4 - 1) << 2\\n.ascii \\\"hi\\\"\\n.align 16\\n.db 1\\n",
 "comments": ".msp430\\n.org 0x100\\n  mov.w #1, r4\\n/* block */\\n  mov.w #2, r5 ; tail\\n// line\\n  .db 3\\n",
 "scope_set": ".6502\\n.org 0x200\\n.scope\\nl: lda #1\\n  bne l\\n.ends\\n.set v=3\\n  lda v\\n.dw l2\\nl2:\\n",
}
def jobs(tier):
    js = []
    combos = [("msp430_basic", "hex", False), ("cond_macro", "hex", False), ("z80", "bin", False), ("data_expr", "srec", False), ("msp430_basic", "hex", True), ("comments", "hex", False)]
    if tier == "thorough":
        combos += [("scope_set", "hex", False), ("cond_macro", "bin", True), ("z80", "hex", True), ("data_expr", "hex", False), ("scope_set", "srec", True)]
    for prog, typ, lst in combos:
        d = {"PROGRAM": '"%s"' % PROGS[prog], "OUTTYPE": '"-type","%s"' % typ}
        if lst: d["LISTING"] = None
        js.append(vp.Job("mainflow.%s.%s%s" % (prog, typ, ".l" if lst else ""), "mainflow.cpp", d, extra_bc=["naken_asm"], max_paths=200000, timeout=900, min_completed=50, max_steps=20000000))
    return js

def main(tier):
    return vp.check_property("C12", tier, jobs(tier),
        "The real main() of naken_asm (argument parsing, both passes, link, file_write, listing, unlink) runs on the engine's in-memory file system on a small valid program with one "
        "symbolic single-character corruption: the position is enumerated by the engine, the replacement character is symbolic over 16 lexical classes (letter, digit, space, newline, hash, comma, dot, colon, quote, parenthesis, tick, semicolon, dollar, slash, star, non-ASCII byte) and the solver decides every "
        "tokenizer/parser branch; on every path Z3 decides that exit status 0 <=> no error diagnostic and a written output file, and that a failing run leaves no (stale) file at the output path.",
        ["programs and option sets listed in checks/C12.py (MSP430, Z80, 6502; hex/bin/srec; -l on/off); stdout captured exactly; a diagnostic is a line containing Error/error/Cannot/Unknown",
         "single-character substitutions only (insertions/deletions/multi-point corruptions outside the bound); unreadable source files outside the claim",
         "a stale output file is planted before the run"])
