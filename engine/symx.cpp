// symx: path-wise symbolic executor for LLVM-14 IR with Z3.
// Forks at branches whose condition is symbolic and feasible both ways
// (decided by the solver); everything concrete runs concretely.
#include "symx_ext.h"
#include <algorithm>
#include <fstream>
#include <sys/resource.h>
#include <unistd.h>

[[noreturn]] static void die(const char *fmt, ...)
{
  va_list ap; va_start(ap, fmt); fprintf(stderr, "symx: ENGINE ERROR: "); vfprintf(stderr, fmt, ap); fprintf(stderr, "\n"); va_end(ap);
  exit(3);
}

static std::deque<State> worklist;
static std::set<std::string> FUNCS_EXECUTED, EXTERNALS_USED;
static std::map<std::string, uint64_t> COVER_COUNTS, FORK_SITES;
struct Sample { std::vector<std::pair<std::string, std::string>> inputs, notes; };
static std::vector<Sample> SAMPLES;

static Val get_raw(State &s, const Value *v)
{
  if (auto *c = dyn_cast<Constant>(v)) return const_val(c);
  Frame &f = s.stack.back();
  auto it = f.fi->idx.find(v);
  if (it == f.fi->idx.end() || !f.have[it->second]) { std::string str; raw_string_ostream os(str); v->print(os); die("use of undefined value %s in %s", os.str().c_str(), f.fn->getName().str().c_str()); }
  return f.regs[it->second];
}
// ordinary uses resolve guarded multi-target pointers (case split); only the string externals take them raw
static Val get(State &s, const Value *v)
{
  Val x = get_raw(s, v);
  if (x.multi) return resolve_ptr(s, x);
  return x;
}
static bool takes_multi_ptr(const std::string &n)
{
  return n == "snprintf" || n == "sprintf" || n == "strcpy" || n == "strcat" || n == "strlen" || n == "strcmp" || n == "strcasecmp" ||
         n == "printf" || n == "fprintf" || n == "puts" || n == "fputs" || n == "strncmp" || n == "strncasecmp" || n == "symx_note_str";
}
static void set_reg(State &s, const Value *v, const Val &x)
{
  Frame &f = s.stack.back();
  auto it = f.fi->idx.find(v);
  if (it == f.fi->idx.end()) die("set of unknown value");
  f.regs[it->second] = x; f.have[it->second] = 1;
}

static const FnInfo &fninfo(const Function *f)
{
  auto it = FNINFO.find(f);
  if (it != FNINFO.end()) return it->second;
  FnInfo &fi = FNINFO[f];
  for (const Argument &a : f->args()) fi.idx[&a] = fi.n++;
  for (const BasicBlock &bb : *f) for (const Instruction &I : bb) if (!I.getType()->isVoidTy()) fi.idx[&I] = fi.n++;
  return fi;
}

static void push_frame(State &s, const Function *f, const std::vector<Val> &args, const CallInst *cs)
{
  if (s.stack.size() >= OPT.max_stack) { violation(s, "recursion", "call depth exceeds " + std::to_string(OPT.max_stack) + " (unbounded recursion?)", nullptr); throw PathEnd{"recursion"}; }
  Frame fr; fr.fn = f; fr.fi = &fninfo(f); fr.bb = &f->getEntryBlock(); fr.ip = fr.bb->begin(); fr.callsite = cs;
  fr.regs.resize(fr.fi->n); fr.have.assign(fr.fi->n, 0);
  unsigned i = 0;
  for (const Argument &a : f->args()) { if (i >= args.size()) die("too few arguments calling %s", f->getName().str().c_str()); unsigned k = fr.fi->idx.at(&a); fr.regs[k] = args[i++]; fr.have[k] = 1; }
  for (; i < args.size(); i++) fr.varargs.push_back(args[i]);
  s.stack.push_back(std::move(fr));
  static const Function *last = nullptr;
  if (f != last) { FUNCS_EXECUTED.insert(f->getName().str()); last = f; }
}

static void jump(State &s, const BasicBlock *to)
{
  Frame &f = s.stack.back();
  const BasicBlock *from = f.bb;
  std::vector<std::pair<const PHINode *, Val>> vals;
  for (const PHINode &phi : to->phis()) vals.push_back({&phi, get(s, phi.getIncomingValueForBlock(from))});
  for (auto &pv : vals) set_reg(s, pv.first, pv.second);
  f.prev = from; f.bb = to; f.ip = to->getFirstNonPHI()->getIterator();
}

static z3::func_decl *UF_MUL, *UF_SDIV, *UF_SREM, *UF_UDIV, *UF_UREM;

static Val binop(unsigned opc, const Val &a, const Val &b, unsigned bits, State &s)
{
  bool ap = a.isptr && a.obj >= 0, bp = b.isptr && b.obj >= 0;
  if (ap || bp)
  {
    if (ap != bp && (opc == Instruction::Add || (opc == Instruction::Sub && ap)))
    {
      const Val &p = ap ? a : b; const Val &o = ap ? b : a;
      if (p.conc && o.conc) return with_off(p, mk_int(64, opc == Instruction::Add ? p.c + o.c : p.c - o.c));
      return with_off(p, mk_sym(64, opc == Instruction::Add ? ex(p) + ex(o) : ex(p) - ex(o)));
    }
    if (ap && bp && a.obj == b.obj && opc == Instruction::Sub)
    {
      if (a.conc && b.conc) return mk_int(bits, a.c - b.c);
      return mk_sym(bits, ex(a) - ex(b));
    }
    if (ap != bp && opc == Instruction::And && (ap ? b : a).conc)
    {
      // alignment tests on pointers: objects are at least 16-byte aligned
      const Val &p = ap ? a : b; const Val &o = ap ? b : a;
      if (o.c < 16 && p.conc) return mk_int(bits, p.c & o.c);
    }
    die("unsupported arithmetic on pointers (opcode %u) in %s", opc, cur_fn(s).c_str());
  }
  if (a.conc && b.conc)
  {
    uint64_t x = a.c, y = b.c, r = 0;
    switch (opc)
    {
      case Instruction::Add: r = x + y; break;
      case Instruction::Sub: r = x - y; break;
      case Instruction::Mul: r = x * y; break;
      case Instruction::And: r = x & y; break;
      case Instruction::Or: r = x | y; break;
      case Instruction::Xor: r = x ^ y; break;
      case Instruction::Shl: if (y >= bits) { violation(s, "shift", "UB: shift amount >= width", nullptr); r = 0; } else r = x << y; break;
      case Instruction::LShr: if (y >= bits) { violation(s, "shift", "UB: shift amount >= width", nullptr); r = 0; } else r = x >> y; break;
      case Instruction::AShr: if (y >= bits) { violation(s, "shift", "UB: shift amount >= width", nullptr); r = 0; } else r = (uint64_t)(sext64(x, bits) >> y); break;
      case Instruction::UDiv: case Instruction::URem: case Instruction::SDiv: case Instruction::SRem:
        if (y == 0) { violation(s, "div0", "division by zero", nullptr); throw PathEnd{"div0"}; }
        if (opc == Instruction::UDiv) r = x / y;
        else if (opc == Instruction::URem) r = x % y;
        else
        {
          int64_t sx = sext64(x, bits), sy = sext64(y, bits);
          if (sy == -1 && sx == sext64(1ULL << (bits - 1), bits)) { violation(s, "divovf", "UB: signed division overflow (MIN / -1)", nullptr); throw PathEnd{"divovf"}; }
          r = opc == Instruction::SDiv ? (uint64_t)(sx / sy) : (uint64_t)(sx % sy);
        }
        break;
      default: die("binop %u", opc);
    }
    return mk_int(bits, r);
  }
  z3::expr x = ex(a), y = ex(b);
  auto chk_div = [&](bool sgn) {
    z3::expr z = (y == Z.bv_val(0, bits));
    if (may_be_true(s, z)) { violation(s, "div0", "division by zero", &z); if (!may_be_true(s, !z)) throw PathEnd{"div0"}; add_constraint(s, !z); }
    if (sgn)
    {
      z3::expr o = (y == Z.bv_val((uint64_t)-1, bits)) && (x == Z.bv_val((uint64_t)(1ULL << (bits - 1)), bits));
      if (may_be_true(s, o)) { violation(s, "divovf", "UB: signed division overflow (MIN / -1)", &o); if (!may_be_true(s, !o)) throw PathEnd{"divovf"}; add_constraint(s, !o); }
    }
  };
  auto chk_sh = [&]() { z3::expr z = z3::uge(y, Z.bv_val(bits, bits)); if (may_be_true(s, z)) { violation(s, "shift", "UB: shift amount >= width", &z); if (!may_be_true(s, !z)) throw PathEnd{"shift"}; add_constraint(s, !z); } };
  bool uf = OPT.uf_muldiv && !a.conc && !b.conc && bits == 64;
  switch (opc)
  {
    case Instruction::Add: return mk_sym(bits, x + y);
    case Instruction::Sub: return mk_sym(bits, x - y);
    case Instruction::Mul: if (uf) return mk_sym(bits, (*UF_MUL)(x, y)); return mk_sym(bits, x * y);
    case Instruction::And: return mk_sym(bits, x & y);
    case Instruction::Or: return mk_sym(bits, x | y);
    case Instruction::Xor: return mk_sym(bits, x ^ y);
    case Instruction::Shl: chk_sh(); return mk_sym(bits, z3::shl(x, y));
    case Instruction::LShr: chk_sh(); return mk_sym(bits, z3::lshr(x, y));
    case Instruction::AShr: chk_sh(); return mk_sym(bits, z3::ashr(x, y));
    case Instruction::UDiv: chk_div(false); if (uf) return mk_sym(bits, (*UF_UDIV)(x, y)); return mk_sym(bits, z3::udiv(x, y));
    case Instruction::URem: chk_div(false); if (uf) return mk_sym(bits, (*UF_UREM)(x, y)); return mk_sym(bits, z3::urem(x, y));
    case Instruction::SDiv: chk_div(true); if (uf) return mk_sym(bits, (*UF_SDIV)(x, y)); return mk_sym(bits, x / y);
    case Instruction::SRem: chk_div(true); if (uf) return mk_sym(bits, (*UF_SREM)(x, y)); return mk_sym(bits, z3::srem(x, y));
    default: die("binop %u", opc);
  }
}

static Val icmp(State &s, CmpInst::Predicate p, const Val &a, const Val &b)
{
  bool ap = a.isptr && a.obj >= 0, bp = b.isptr && b.obj >= 0;
  if (ap || bp)
  {
    if (ap != bp || a.obj != b.obj)
    {
      const Val &o = ap ? b : a;
      if (ap != bp && !(o.conc && o.c == 0)) die("comparison of pointer with non-null integer in %s", cur_fn(s).c_str());
      if (p == CmpInst::ICMP_EQ) return mk_int(1, 0);
      if (p == CmpInst::ICMP_NE) return mk_int(1, 1);
      if (ap != bp)
      {
        // ordering against NULL: a valid pointer is above null
        bool a_is_ptr = ap;
        switch (p)
        {
          case CmpInst::ICMP_UGT: case CmpInst::ICMP_UGE: return mk_int(1, a_is_ptr);
          case CmpInst::ICMP_ULT: case CmpInst::ICMP_ULE: return mk_int(1, !a_is_ptr);
          default: break;
        }
      }
      // ordering of pointers into different objects ("is p inside this buffer?" idiom): objects are laid out
      // at disjoint virtual addresses id * 2^36, which gives the consistent total order a flat memory has
      Val va = a.conc ? mk_int(64, ((uint64_t)a.obj << 36) + a.c) : mk_sym(64, Z.bv_val((uint64_t)a.obj << 36, 64) + *a.e);
      Val vb = b.conc ? mk_int(64, ((uint64_t)b.obj << 36) + b.c) : mk_sym(64, Z.bv_val((uint64_t)b.obj << 36, 64) + *b.e);
      return icmp(s, p, va, vb);
    }
  }
  unsigned bits = a.bits;
  if (a.conc && b.conc)
  {
    uint64_t x = maskbits(a.c, bits), y = maskbits(b.c, bits); int64_t sx = sext64(x, bits), sy = sext64(y, bits); bool r;
    switch (p)
    {
      case CmpInst::ICMP_EQ: r = x == y; break; case CmpInst::ICMP_NE: r = x != y; break;
      case CmpInst::ICMP_ULT: r = x < y; break; case CmpInst::ICMP_ULE: r = x <= y; break;
      case CmpInst::ICMP_UGT: r = x > y; break; case CmpInst::ICMP_UGE: r = x >= y; break;
      case CmpInst::ICMP_SLT: r = sx < sy; break; case CmpInst::ICMP_SLE: r = sx <= sy; break;
      case CmpInst::ICMP_SGT: r = sx > sy; break; case CmpInst::ICMP_SGE: r = sx >= sy; break;
      default: die("icmp");
    }
    return mk_int(1, r);
  }
  z3::expr x = ex(a), y = ex(b); z3::expr r = Z.bool_val(false);
  switch (p)
  {
    case CmpInst::ICMP_EQ: r = x == y; break; case CmpInst::ICMP_NE: r = x != y; break;
    case CmpInst::ICMP_ULT: r = z3::ult(x, y); break; case CmpInst::ICMP_ULE: r = z3::ule(x, y); break;
    case CmpInst::ICMP_UGT: r = z3::ugt(x, y); break; case CmpInst::ICMP_UGE: r = z3::uge(x, y); break;
    case CmpInst::ICMP_SLT: r = z3::slt(x, y); break; case CmpInst::ICMP_SLE: r = z3::sle(x, y); break;
    case CmpInst::ICMP_SGT: r = z3::sgt(x, y); break; case CmpInst::ICMP_SGE: r = z3::sge(x, y); break;
    default: die("icmp");
  }
  return mk_sym(1, z3::ite(r, Z.bv_val(1, 1), Z.bv_val(0, 1)));
}

static z3::expr as_bool(const Val &v) { return ex(v) == Z.bv_val(1, 1); }
static double as_double(const Val &v, Type *t) { if (t->isDoubleTy()) { double d; uint64_t b = v.c; memcpy(&d, &b, 8); return d; } float f; uint32_t b = v.c; memcpy(&f, &b, 4); return f; }
static Val from_double(double d, Type *t) { if (t->isDoubleTy()) { uint64_t b; memcpy(&b, &d, 8); return mk_int(64, b); } float f = d; uint32_t b; memcpy(&b, &f, 4); return mk_int(32, b); }
static unsigned type_bits(Type *t)
{
  if (t->isPointerTy()) return 64;
  if (t->isIntegerTy()) return t->getIntegerBitWidth();
  if (t->isDoubleTy()) return 64;
  if (t->isFloatTy()) return 32;
  die("unsupported scalar type");
}

static void finish_path(State &s, const char *why)
{
  ST.paths++; ST.steps += s.steps;
  bool infeasible = !strcmp(why, "infeasible") || !strncmp(why, "assume", 6);
  if (infeasible) { ST.infeasible++; return; }
  ST.completed++;
  for (auto &c : s.covers) COVER_COUNTS[c]++;
  if (OPT.concrete_inputs)
  {
    for (auto &n : s.notes) printf("NOTE %s %s\n", n.tag.c_str(), n.is_text ? n.text.c_str() : val_str(s, n.v, nullptr).c_str());
  }
  if (SAMPLES.size() < OPT.samples || (ST.completed % 97 == 0 && SAMPLES.size() < OPT.samples * 4))
  {
    std::shared_ptr<z3::model> m = s.model;
    if (!m && !s.pc.empty()) { try { solve(s, nullptr, &m); } catch (PathEnd &) {} }
    Sample sm;
    for (auto &in : s.inputs)
    {
      std::string val = "*";
      if (m) { z3::expr r = m->eval(*in.e, false); uint64_t c = 0; if (r.is_numeral_u64(c)) val = std::to_string(c); }
      else if (in.e->is_numeral()) { uint64_t c = 0; in.e->is_numeral_u64(c); val = std::to_string(c); }
      sm.inputs.push_back({in.name, val});
    }
    for (auto &n : s.notes) sm.notes.push_back({n.tag, n.is_text ? n.text : val_str(s, n.v, m.get())});
    sm.notes.push_back({"end", why});
    SAMPLES.push_back(sm);
  }
}

static bool step_inner(State &s);
static bool step(State &s)
{
  BasicBlock::const_iterator saved = s.stack.back().ip;
  size_t depth = s.stack.size();
  try { return step_inner(s); }
  catch (ForkReq &fr)
  {
    if (s.stack.size() != depth) die("fork request after frame change");
    s.stack.back().ip = saved;
    s.steps--;
    std::vector<std::pair<z3::expr, std::shared_ptr<z3::model>>> feas;
    for (auto &a : fr.alts)
    {
      std::shared_ptr<z3::model> m;
      if (fr.prechecked) { feas.push_back({a, m}); continue; }
      if (may_be_true(s, a, &m)) feas.push_back({a, m});
    }
    if (fr.prechecked) s.model.reset();
    if (feas.empty()) { finish_path(s, "infeasible"); return false; }
    if (OPT.verbose) fprintf(stderr, "symx: forkreq %zu/%zu alts in %s at %s (worklist %zu) alt0=%s\n", feas.size(), fr.alts.size(), cur_fn(s).c_str(), cur_loc(s).c_str(), worklist.size(), feas[0].first.to_string().substr(0, 300).c_str());
    for (size_t i = 1; i < feas.size(); i++)
    {
      ST.forks++; State s2 = [&] { Timer tm(T_COPY); return State(s); }(); add_constraint(s2, feas[i].first); if (feas[i].second) s2.model = feas[i].second; worklist.push_back(std::move(s2));
    }
    add_constraint(s, feas[0].first); if (feas[0].second && !s.model) s.model = feas[0].second;
    return true;
  }
  catch (PathEnd &pe) { finish_path(s, pe.why); return false; }
}

static bool step_inner(State &s)
{
  Frame &f = s.stack.back();
  const Instruction &I = *f.ip;
  ++f.ip;
  s.steps++;
  if (s.steps > OPT.max_steps) { violation(s, "budget", "step budget of " + std::to_string(OPT.max_steps) + " exhausted (possible non-termination)", nullptr); finish_path(s, "budget"); return false; }

  switch (I.getOpcode())
  {
    case Instruction::Alloca:
    {
      auto *al = cast<AllocaInst>(&I);
      uint64_t n = DL->getTypeAllocSize(al->getAllocatedType());
      if (al->isArrayAllocation()) { uint64_t c = concretize(s, get(s, al->getArraySize()), 16, "alloca size"); n *= c; }
      int id = new_obj(s, n, "stack:" + f.fn->getName().str() + ":" + al->getName().str(), OK_STACK);
      s.stack.back().allocas.push_back(id);
      set_reg(s, &I, mk_ptr(id, 0)); return true;
    }
    case Instruction::Load:
    {
      auto *ld = cast<LoadInst>(&I);
      Type *t = ld->getType();
      set_reg(s, &I, do_load(s, get(s, ld->getPointerOperand()), type_bits(t), t->isPointerTy())); return true;
    }
    case Instruction::Store:
    {
      auto *st = cast<StoreInst>(&I);
      Type *t = st->getValueOperand()->getType();
      do_store(s, get(s, st->getPointerOperand()), get(s, st->getValueOperand()), type_bits(t)); return true;
    }
    case Instruction::GetElementPtr:
    {
      auto *gep = cast<GetElementPtrInst>(&I);
      Val base = get(s, gep->getPointerOperand());
      bool conc = base.conc; uint64_t off = base.c; z3::expr eoff = conc ? Z.bv_val(0, 64) : *base.e;
      for (gep_type_iterator it = gep_type_begin(gep), ie = gep_type_end(gep); it != ie; ++it)
      {
        Val idx = get(s, it.getOperand());
        if (StructType *sty = it.getStructTypeOrNull())
        {
          uint64_t o = DL->getStructLayout(sty)->getElementOffset(idx.c);
          if (conc) off += o; else eoff = eoff + Z.bv_val(o, 64);
          continue;
        }
        uint64_t es = DL->getTypeAllocSize(it.getIndexedType());
        if (idx.conc)
        {
          uint64_t d = (uint64_t)(sext64(idx.c, idx.bits) * (int64_t)es);
          if (conc) off += d; else eoff = eoff + Z.bv_val(d, 64);
        }
        else
        {
          z3::expr ie2 = idx.bits < 64 ? z3::sext(*idx.e, 64 - idx.bits) : *idx.e;
          if (conc) { eoff = Z.bv_val(off, 64); conc = false; }
          eoff = eoff + ie2 * Z.bv_val(es, 64);
        }
      }
      Val r = base;
      if (conc) { r.conc = true; r.c = off; r.e.reset(); }
      else { Val t = mk_sym(64, eoff); r.conc = t.conc; r.c = t.c; r.e = t.e; }
      r.isptr = true; r.bits = 64;
      set_reg(s, &I, r); return true;
    }
    case Instruction::ICmp: { auto *ic = cast<ICmpInst>(&I); set_reg(s, &I, icmp(s, ic->getPredicate(), get(s, ic->getOperand(0)), get(s, ic->getOperand(1)))); return true; }
    case Instruction::FCmp:
    {
      auto *fc = cast<FCmpInst>(&I);
      Val a = get(s, fc->getOperand(0)), b = get(s, fc->getOperand(1));
      if (!a.conc || !b.conc) { ST.abandoned++; throw PathEnd{"symbolic floating point (outside the claim)"}; }
      double x = as_double(a, fc->getOperand(0)->getType()), y = as_double(b, fc->getOperand(0)->getType()); bool r;
      bool un = std::isnan(x) || std::isnan(y);
      switch (fc->getPredicate())
      {
        case CmpInst::FCMP_OEQ: r = !un && x == y; break; case CmpInst::FCMP_ONE: r = !un && x != y; break;
        case CmpInst::FCMP_OLT: r = !un && x < y; break; case CmpInst::FCMP_OLE: r = !un && x <= y; break;
        case CmpInst::FCMP_OGT: r = !un && x > y; break; case CmpInst::FCMP_OGE: r = !un && x >= y; break;
        case CmpInst::FCMP_UEQ: r = un || x == y; break; case CmpInst::FCMP_UNE: r = un || x != y; break;
        case CmpInst::FCMP_ULT: r = un || x < y; break; case CmpInst::FCMP_ULE: r = un || x <= y; break;
        case CmpInst::FCMP_UGT: r = un || x > y; break; case CmpInst::FCMP_UGE: r = un || x >= y; break;
        case CmpInst::FCMP_ORD: r = !un; break; case CmpInst::FCMP_UNO: r = un; break;
        default: die("fcmp predicate");
      }
      set_reg(s, &I, mk_int(1, r)); return true;
    }
    case Instruction::Select:
    {
      auto *se = cast<SelectInst>(&I);
      Val c = get(s, se->getCondition()), a = get(s, se->getTrueValue()), b = get(s, se->getFalseValue());
      if (c.conc) { set_reg(s, &I, c.c ? a : b); return true; }
      bool ap = a.isptr && a.obj >= 0, bp = b.isptr && b.obj >= 0;
      if (ap || bp)
      {
        if (!(ap && bp && a.obj == b.obj))
        {
          z3::expr cc = as_bool(c);
          bool mt = may_be_true(s, cc), mf = may_be_true(s, !cc);
          if (mt && mf) { ForkReq fr; fr.alts.push_back(cc); fr.alts.push_back(!cc); throw fr; }
          set_reg(s, &I, mt ? a : b); return true;
        }
        set_reg(s, &I, with_off(a, mk_sym(64, z3::ite(as_bool(c), ex(a), ex(b))))); return true;
      }
      Val r = mk_sym(a.bits, z3::ite(as_bool(c), ex(a), ex(b)));
      if (a.isptr) { r.isptr = true; r.obj = -1; }
      set_reg(s, &I, r); return true;
    }
    case Instruction::Br:
    {
      auto *br = cast<BranchInst>(&I);
      if (br->isUnconditional()) { jump(s, br->getSuccessor(0)); return true; }
      Val c = get(s, br->getCondition());
      if (c.conc) { jump(s, br->getSuccessor(c.c ? 0 : 1)); return true; }
      z3::expr t = as_bool(c).simplify();
      z3::expr nt = (!t).simplify();
      std::shared_ptr<z3::model> mt, mf;
      bool ft = may_be_true(s, t, &mt);
      bool ff = ft ? may_be_true(s, nt, &mf) : true;
      if (ft && ff)
      {
        ST.forks++; FORK_SITES[cur_fn(s) + " " + cur_loc(s)]++;
        State s2 = s;
        if (OPT.false_first)
        {
          add_constraint(s2, t); if (mt) s2.model = mt; jump(s2, br->getSuccessor(0)); worklist.push_back(std::move(s2));
          add_constraint(s, nt); if (mf) s.model = mf; else s.model.reset(); jump(s, br->getSuccessor(1)); return true;
        }
        add_constraint(s2, nt); if (mf) s2.model = mf; jump(s2, br->getSuccessor(1)); worklist.push_back(std::move(s2));
        add_constraint(s, t); if (!s.model && mt) s.model = mt; jump(s, br->getSuccessor(0)); return true;
      }
      if (ft) { s.known.insert(eid(t)); jump(s, br->getSuccessor(0)); return true; }
      // only false is possible (or pc itself infeasible, which cannot happen for a live path)
      s.known.insert(eid(nt)); jump(s, br->getSuccessor(1)); return true;
    }
    case Instruction::Switch:
    {
      auto *sw = cast<SwitchInst>(&I);
      Val c = get(s, sw->getCondition());
      if (c.conc)
      {
        const BasicBlock *dst = sw->getDefaultDest();
        for (auto cs : sw->cases()) if (maskbits(cs.getCaseValue()->getZExtValue(), c.bits) == c.c) { dst = cs.getCaseSuccessor(); break; }
        jump(s, dst); return true;
      }
      // group case values by successor, then ask the solver per successor
      std::vector<const BasicBlock *> order; std::map<const BasicBlock *, std::vector<uint64_t>> by;
      z3::expr none = Z.bool_val(true);
      for (auto cs : sw->cases())
      {
        const BasicBlock *d = cs.getCaseSuccessor(); uint64_t v = cs.getCaseValue()->getZExtValue();
        if (!by.count(d)) order.push_back(d);
        by[d].push_back(v);
        none = none && (*c.e != Z.bv_val(v, c.bits));
      }
      std::vector<std::tuple<z3::expr, const BasicBlock *, std::shared_ptr<z3::model>>> opts;
      for (auto *d : order)
      {
        z3::expr any = Z.bool_val(false);
        for (uint64_t v : by[d]) any = any || (*c.e == Z.bv_val(v, c.bits));
        std::shared_ptr<z3::model> m;
        if (may_be_true(s, any, &m)) opts.push_back({any.simplify(), d, m});
      }
      { std::shared_ptr<z3::model> m; if (may_be_true(s, none, &m)) opts.push_back({none.simplify(), sw->getDefaultDest(), m}); }
      if (opts.empty()) { finish_path(s, "infeasible"); return false; }
      for (size_t i = 1; i < opts.size(); i++)
      {
        ST.forks++; State s2 = s; add_constraint(s2, std::get<0>(opts[i])); if (std::get<2>(opts[i])) s2.model = std::get<2>(opts[i]);
        jump(s2, std::get<1>(opts[i])); worklist.push_back(std::move(s2));
      }
      add_constraint(s, std::get<0>(opts[0])); if (!s.model && std::get<2>(opts[0])) s.model = std::get<2>(opts[0]);
      jump(s, std::get<1>(opts[0])); return true;
    }
    case Instruction::Ret:
    {
      auto *rt = cast<ReturnInst>(&I);
      Val rv; bool has = false;
      if (rt->getReturnValue()) { rv = get(s, rt->getReturnValue()); has = true; }
      for (int id : s.stack.back().allocas) s.mem.erase(id);
      const CallInst *cs = s.stack.back().callsite;
      s.stack.pop_back();
      if (s.stack.empty()) { finish_path(s, s.exited ? "exit" : "return"); return false; }
      if (has && cs && !cs->getType()->isVoidTy()) set_reg(s, cs, rv);
      return true;
    }
    case Instruction::Unreachable: violation(s, "unreachable", "UB: 'unreachable' executed (e.g. missing return value)", nullptr); finish_path(s, "unreachable"); return false;
    case Instruction::Call:
    {
      auto *ci = cast<CallInst>(&I);
      const Function *cf = ci->getCalledFunction();
      if (cf && cf->isIntrinsic())
      {
        switch (cf->getIntrinsicID())
        {
          case Intrinsic::dbg_declare: case Intrinsic::dbg_value: case Intrinsic::dbg_label:
          case Intrinsic::lifetime_start: case Intrinsic::lifetime_end: case Intrinsic::experimental_noalias_scope_decl:
          case Intrinsic::stackrestore: case Intrinsic::assume: case Intrinsic::donothing:
            return true;
          case Intrinsic::stacksave: set_reg(s, &I, [&] { Val p = mk_int(64, 0); p.isptr = true; return p; }()); return true;
          case Intrinsic::trap: violation(s, "abort", "llvm.trap reached", nullptr); finish_path(s, "trap"); return false;
          default: break;
        }
      }
      std::vector<Val> args;
      for (unsigned i = 0; i < ci->arg_size(); i++)
      {
        Type *t = ci->getArgOperand(i)->getType();
        if (t->isMetadataTy()) { args.push_back(mk_int(1, 0)); continue; }
        if (!(t->isIntegerTy() || t->isPointerTy() || t->isDoubleTy() || t->isFloatTy())) die("call with unsupported arg type in %s", f.fn->getName().str().c_str());
        bool raw = cf && cf->isDeclaration() && !cf->isIntrinsic() && takes_multi_ptr(cf->getName().str());
        args.push_back(raw ? get_raw(s, ci->getArgOperand(i)) : get(s, ci->getArgOperand(i)));
      }
      if (!cf)
      {
        const Value *callee = ci->getCalledOperand()->stripPointerCasts();
        if (auto *fn2 = dyn_cast<Function>(callee)) cf = fn2;
        else
        {
          Val fp = get(s, ci->getCalledOperand());
          auto it = func_obj.find(fp.obj);
          if (!fp.isptr || it == func_obj.end() || !fp.conc || fp.c != 0) { violation(s, "badcall", "indirect call through a non-function pointer", nullptr); finish_path(s, "badcall"); return false; }
          cf = it->second;
        }
      }
      if (cf->isIntrinsic())
      {
        switch (cf->getIntrinsicID())
        {
          case Intrinsic::memset: { std::vector<Val> a3 = {args[0], args[1], args[2]}; return call_external(s, ci, "memset", a3); }
          case Intrinsic::memcpy: { std::vector<Val> a3 = {args[0], args[1], args[2]}; return call_external(s, ci, "memcpy", a3); }
          case Intrinsic::memmove: { std::vector<Val> a3 = {args[0], args[1], args[2]}; return call_external(s, ci, "memmove", a3); }
          case Intrinsic::fabs: { if (!args[0].conc) { ST.abandoned++; throw PathEnd{"symbolic floating point (outside the claim)"}; } set_reg(s, &I, from_double(fabs(as_double(args[0], ci->getType())), ci->getType())); return true; }
          case Intrinsic::abs: return call_external(s, ci, "abs", args);
          case Intrinsic::smax: case Intrinsic::smin: case Intrinsic::umax: case Intrinsic::umin:
          {
            CmpInst::Predicate p = cf->getIntrinsicID() == Intrinsic::smax ? CmpInst::ICMP_SGT : cf->getIntrinsicID() == Intrinsic::smin ? CmpInst::ICMP_SLT : cf->getIntrinsicID() == Intrinsic::umax ? CmpInst::ICMP_UGT : CmpInst::ICMP_ULT;
            Val c = icmp(s, p, args[0], args[1]);
            if (c.conc) set_reg(s, &I, c.c ? args[0] : args[1]); else set_reg(s, &I, mk_sym(args[0].bits, z3::ite(as_bool(c), ex(args[0]), ex(args[1]))));
            return true;
          }
          case Intrinsic::bswap:
          {
            unsigned b = args[0].bits;
            if (args[0].conc) { uint64_t v = 0; for (unsigned i = 0; i < b / 8; i++) v |= ((args[0].c >> (8 * i)) & 0xff) << (b - 8 - 8 * i); set_reg(s, &I, mk_int(b, v)); return true; }
            z3::expr r = args[0].e->extract(7, 0);
            for (unsigned i = 1; i < b / 8; i++) r = z3::concat(r, args[0].e->extract(8 * i + 7, 8 * i));
            set_reg(s, &I, mk_sym(b, r)); return true;
          }
          default: die("unsupported intrinsic %s", cf->getName().str().c_str());
        }
      }
      if (cf->isDeclaration())
      {
        static const Function *lastx = nullptr;
        if (cf != lastx) { EXTERNALS_USED.insert(cf->getName().str()); lastx = cf; }
        return call_external(s, ci, cf->getName().str(), args);
      }
      if (cf->arg_size() > args.size()) { violation(s, "badcall", "call with too few arguments to " + cf->getName().str(), nullptr); finish_path(s, "badcall"); return false; }
      push_frame(s, cf, args, ci);
      return true;
    }
    default: break;
  }
  if (auto *bo = dyn_cast<BinaryOperator>(&I))
  {
    Type *t = bo->getType();
    if (t->isIntegerTy()) { set_reg(s, &I, binop(bo->getOpcode(), get(s, bo->getOperand(0)), get(s, bo->getOperand(1)), t->getIntegerBitWidth(), s)); return true; }
    if (t->isDoubleTy() || t->isFloatTy())
    {
      Val a = get(s, bo->getOperand(0)), b = get(s, bo->getOperand(1));
      if (!a.conc || !b.conc) { ST.abandoned++; throw PathEnd{"symbolic floating point (outside the claim)"}; }
      double x = as_double(a, t), y = as_double(b, t), r;
      switch (bo->getOpcode())
      {
        case Instruction::FAdd: r = x + y; break; case Instruction::FSub: r = x - y; break;
        case Instruction::FMul: r = x * y; break; case Instruction::FDiv: r = x / y; break;
        case Instruction::FRem: r = fmod(x, y); break;
        default: die("fp binop");
      }
      set_reg(s, &I, from_double(r, t)); return true;
    }
    die("binop on unsupported type");
  }
  if (auto *uo = dyn_cast<UnaryOperator>(&I))
  {
    Val a = get(s, uo->getOperand(0));
    if (!a.conc) { ST.abandoned++; throw PathEnd{"symbolic floating point (outside the claim)"}; }
    set_reg(s, &I, from_double(-as_double(a, uo->getType()), uo->getType())); return true;
  }
  if (auto *ci = dyn_cast<CastInst>(&I))
  {
    Val a = get(s, ci->getOperand(0));
    Type *dt = ci->getDestTy(), *st = ci->getSrcTy();
    switch (ci->getOpcode())
    {
      case Instruction::BitCast: set_reg(s, &I, a); return true;
      case Instruction::PtrToInt: { Val r = a; r.bits = dt->getIntegerBitWidth(); if (r.bits != 64) { if (a.obj >= 0) die("narrowing ptrtoint"); r = a.conc ? mk_int(r.bits, a.c) : mk_sym(r.bits, a.e->extract(r.bits - 1, 0)); } set_reg(s, &I, r); return true; }
      case Instruction::IntToPtr: { Val r = a; if (a.bits < 64) r = a.conc ? mk_int(64, a.c) : mk_sym(64, z3::zext(*a.e, 64 - a.bits)); if (a.isptr) { r.obj = a.obj; } r.isptr = true; r.bits = 64; set_reg(s, &I, r); return true; }
      case Instruction::Trunc: { unsigned nb = dt->getIntegerBitWidth(); if (a.isptr && a.obj >= 0) die("trunc of pointer"); set_reg(s, &I, a.conc ? mk_int(nb, a.c) : mk_sym(nb, a.e->extract(nb - 1, 0))); return true; }
      case Instruction::ZExt: { unsigned nb = dt->getIntegerBitWidth(); set_reg(s, &I, a.conc ? mk_int(nb, maskbits(a.c, a.bits)) : mk_sym(nb, z3::zext(*a.e, nb - a.bits))); return true; }
      case Instruction::SExt: { unsigned nb = dt->getIntegerBitWidth(); set_reg(s, &I, a.conc ? mk_int(nb, (uint64_t)sext64(a.c, a.bits)) : mk_sym(nb, z3::sext(*a.e, nb - a.bits))); return true; }
      case Instruction::SIToFP: case Instruction::UIToFP:
        if (!a.conc) { ST.abandoned++; throw PathEnd{"symbolic floating point (outside the claim)"}; }
        set_reg(s, &I, from_double(ci->getOpcode() == Instruction::SIToFP ? (double)sext64(a.c, a.bits) : (double)a.c, dt)); return true;
      case Instruction::FPToSI: case Instruction::FPToUI:
      {
        if (!a.conc) { ST.abandoned++; throw PathEnd{"symbolic floating point (outside the claim)"}; }
        double d = as_double(a, st); unsigned nb = dt->getIntegerBitWidth();
        if (std::isnan(d) || d >= 9.3e18 || d <= -9.3e18) { violation(s, "fpconv", "UB: floating point value not representable in integer conversion", nullptr); throw PathEnd{"fpconv"}; }
        set_reg(s, &I, mk_int(nb, ci->getOpcode() == Instruction::FPToSI ? (uint64_t)(int64_t)d : (uint64_t)d)); return true;
      }
      case Instruction::FPExt: case Instruction::FPTrunc:
        if (!a.conc) { ST.abandoned++; throw PathEnd{"symbolic floating point (outside the claim)"}; }
        set_reg(s, &I, from_double(as_double(a, st), dt)); return true;
      default: die("unsupported cast %s", ci->getOpcodeName());
    }
  }
  if (isa<PHINode>(&I)) die("phi executed out of order");
  std::string str; raw_string_ostream os(str); I.print(os);
  die("unsupported instruction %s", os.str().c_str());
}

// ---------------------------------------------------------------- output
static std::string jesc(const std::string &s)
{
  std::string r;
  for (unsigned char c : s)
  {
    if (c == '"' || c == '\\') { r += '\\'; r += c; }
    else if (c == '\n') r += "\\n";
    else if (c < 0x20 || c >= 0x7f) { char b[8]; snprintf(b, sizeof b, "\\u%04x", c); r += b; }
    else r += c;
  }
  return r;
}

static void write_json(const std::string &path, const std::string &entry, double wall, int status)
{
  std::ofstream o(path);
  struct rusage ru; getrusage(RUSAGE_SELF, &ru);
  o << "{\n";
  o << " \"entry\": \"" << jesc(entry) << "\",\n \"status\": " << status << ",\n";
  o << " \"paths\": " << ST.paths << ", \"completed\": " << ST.completed << ", \"infeasible\": " << ST.infeasible << ", \"abandoned_fp\": " << ST.abandoned << ",\n";
  o << " \"solver_unknown_paths\": " << ST.unknown_paths << ",\n";
  o << " \"render_classes\": " << OPT.render_classes << ", \"pruned_render_classes\": " << ST.pruned_render << ",\n";
  o << " \"forks\": " << ST.forks << ", \"steps\": " << ST.steps << ", \"queries\": " << ST.queries << ", \"cache_hits\": " << ST.cache_hits << ", \"model_hits\": " << ST.model_hits << ",\n";
  o << " \"asserts_checked\": " << ST.asserts_checked << ", \"solver_s\": " << ST.solver_s << ", \"wall_s\": " << wall << ", \"peak_rss_kb\": " << ru.ru_maxrss << ", \"pending\": " << worklist.size() << ",\n";
  o << " \"inconclusive\": " << (INCONCLUSIVE ? "true" : "false") << ", \"inconclusive_why\": \"" << jesc(INCONCLUSIVE_WHY) << "\",\n";
  o << " \"max_paths\": " << OPT.max_paths << ", \"max_steps\": " << OPT.max_steps << ", \"query_timeout_ms\": " << OPT.query_timeout_ms << ",\n";
  o << " \"functions\": [";
  { bool first = true; for (auto &f : FUNCS_EXECUTED) { o << (first ? "" : ", ") << "\"" << jesc(f) << "\""; first = false; } }
  o << "],\n \"externals\": [";
  { bool first = true; for (auto &f : EXTERNALS_USED) { o << (first ? "" : ", ") << "\"" << jesc(f) << "\""; first = false; } }
  o << "],\n \"covers\": {";
  { bool first = true; for (auto &c : COVER_COUNTS) { o << (first ? "" : ", ") << "\"" << jesc(c.first) << "\": " << c.second; first = false; } }
  o << "},\n \"violations\": [\n";
  for (size_t i = 0; i < VIOLS.size(); i++)
  {
    auto &v = VIOLS[i];
    o << "  {\"kind\": \"" << jesc(v.kind) << "\", \"msg\": \"" << jesc(v.msg) << "\", \"fn\": \"" << jesc(v.fn) << "\", \"loc\": \"" << jesc(v.loc) << "\", \"count\": " << v.count << ",\n   \"inputs\": [";
    for (size_t k = 0; k < v.inputs.size(); k++) o << (k ? ", " : "") << "{\"name\": \"" << jesc(v.inputs[k].first.name) << "\", \"bits\": " << v.inputs[k].first.bits << ", \"value\": \"" << v.inputs[k].second << "\"}";
    o << "],\n   \"notes\": [";
    for (size_t k = 0; k < v.notes.size(); k++) o << (k ? ", " : "") << "[\"" << jesc(v.notes[k].first) << "\", \"" << jesc(v.notes[k].second) << "\"]";
    o << "]}" << (i + 1 < VIOLS.size() ? "," : "") << "\n";
  }
  o << " ],\n \"samples\": [\n";
  for (size_t i = 0; i < SAMPLES.size(); i++)
  {
    o << "  {\"inputs\": {";
    for (size_t k = 0; k < SAMPLES[i].inputs.size(); k++) o << (k ? ", " : "") << "\"" << jesc(SAMPLES[i].inputs[k].first) << "\": \"" << SAMPLES[i].inputs[k].second << "\"";
    o << "}, \"notes\": [";
    for (size_t k = 0; k < SAMPLES[i].notes.size(); k++) o << (k ? ", " : "") << "[\"" << jesc(SAMPLES[i].notes[k].first) << "\", \"" << jesc(SAMPLES[i].notes[k].second) << "\"]";
    o << "]}" << (i + 1 < SAMPLES.size() ? "," : "") << "\n";
  }
  o << " ]\n}\n";
}

int main(int argc, char **argv)
{
  if (argc < 3) { fprintf(stderr, "usage: symx module.bc entry [--out f.json] [--max-paths N] [--max-steps N] [--timeout S] [--query-timeout-ms N] [--inputs file] [--seed N] [--uf-muldiv] [--samples N] [-v]\n"); return 2; }
  std::string entry_name = argv[2];
  for (int i = 3; i < argc; i++)
  {
    std::string a = argv[i];
    auto next = [&]() { if (i + 1 >= argc) die("missing value for %s", a.c_str()); return std::string(argv[++i]); };
    if (a == "--out") OPT.out = next();
    else if (a == "--max-paths") OPT.max_paths = strtoull(next().c_str(), 0, 10);
    else if (a == "--max-steps") OPT.max_steps = strtoull(next().c_str(), 0, 10);
    else if (a == "--timeout") OPT.timeout_s = atof(next().c_str());
    else if (a == "--query-timeout-ms") OPT.query_timeout_ms = atoi(next().c_str());
    else if (a == "--inputs") { OPT.inputs_file = next(); OPT.concrete_inputs = true; }
    else if (a == "--seed") OPT.seed = strtoull(next().c_str(), 0, 10);
    else if (a == "--uf-muldiv") OPT.uf_muldiv = true;
    else if (a == "--false-first") OPT.false_first = true;
    else if (a == "--merge-ptrs") OPT.merge_ptrs = true;
    else if (a == "--tolerate-unknown") OPT.tolerate_unknown = true;
    else if (a == "--support-bits") OPT.support_bits = atoi(next().c_str());
    else if (a == "--render-classes") OPT.render_classes = atoi(next().c_str());
    else if (a == "--samples") OPT.samples = atoi(next().c_str());
    else if (a == "--max-violations") OPT.max_violations = atoi(next().c_str());
    else if (a == "-v") OPT.verbose = true;
    else die("unknown option %s", a.c_str());
  }
  if (OPT.concrete_inputs)
  {
    std::ifstream in(OPT.inputs_file); std::string line;
    while (std::getline(in, line)) { if (line.empty() || line[0] == '#') continue; OPT.concrete.push_back(strtoull(line.c_str(), 0, 0)); }
  }
  LLVMContext ctx; SMDiagnostic err;
  std::unique_ptr<Module> M = parseIRFile(argv[1], err, ctx);
  if (!M) { err.print("symx", errs()); return 3; }
  MOD = M.get(); DL = &M->getDataLayout();
  init_chunks();
  z3::solver solver(Z); SOLVER = &solver;
  z3::params p(Z); p.set("timeout", OPT.query_timeout_ms); solver.set(p);
  z3::sort bv64 = Z.bv_sort(64);
  z3::func_decl ufm = Z.function("uf_mul", bv64, bv64, bv64), ufsd = Z.function("uf_sdiv", bv64, bv64, bv64), ufsr = Z.function("uf_srem", bv64, bv64, bv64), ufud = Z.function("uf_udiv", bv64, bv64, bv64), ufur = Z.function("uf_urem", bv64, bv64, bv64);
  UF_MUL = &ufm; UF_SDIV = &ufsd; UF_SREM = &ufsr; UF_UDIV = &ufud; UF_UREM = &ufur;

  State init;
  GOBJ.push_back(nullptr);
  // functions and read-only globals live in GOBJ; writable globals in the state
  int next = 1;
  for (const Function &F : *M) { int id = next++; func_obj[id] = &F; func_to_obj[&F] = id; auto o = make_obj(1, "function:" + F.getName().str(), OK_FUNC, true); o->readonly = true; GOBJ.resize(id + 1); GOBJ[id] = o; }
  std::vector<const GlobalVariable *> stdio_globals;
  for (const GlobalVariable &G : M->globals())
  {
    uint64_t n = DL->getTypeAllocSize(G.getValueType());
    int id = next++;
    global_obj[&G] = id;
    auto o = make_obj(n, "global:" + G.getName().str(), OK_GLOBAL, true);
    GOBJ.resize(id + 1);
    if (G.isConstant() && G.hasInitializer()) { o->readonly = true; GOBJ[id] = o; }
    else init.mem[id] = o;
    if (!G.hasInitializer()) stdio_globals.push_back(&G);
  }
  init.next_obj = next;
  for (const GlobalVariable &G : M->globals())
  {
    if (!G.hasInitializer()) continue;
    int id = global_obj[&G];
    Obj &o = G.isConstant() ? *GOBJ[id] : *init.mem[id];
    init_const(o, 0, G.getInitializer());
  }
  for (const GlobalVariable *G : stdio_globals)
  {
    std::string n = G->getName().str();
    if (n == "stdout" || n == "stderr" || n == "stdin")
    {
      int fid = new_obj(init, 16, "FILE:<" + n + ">", OK_FILE, true);
      Stream st; st.name = "<" + n + ">"; st.writable = n != "stdin"; st.readable = n == "stdin";
      init.streams[fid] = st;
      State dummy; store_conc(dummy, *init.mem[global_obj[G]], 0, mk_ptr(fid, 0), 64);
    }
    else die("external global %s has no definition in the module", n.c_str());
  }
  FIRST_DYNAMIC = init.next_obj;
  const Function *entry = M->getFunction(entry_name);
  if (!entry || entry->isDeclaration()) die("no entry function %s", entry_name.c_str());
  // static constructors
  if (GlobalVariable *ctors = M->getGlobalVariable("llvm.global_ctors"))
    if (ctors->hasInitializer() && !isa<ConstantAggregateZero>(ctors->getInitializer()))
      die("module has static constructors (not supported)");
  try { push_frame(init, entry, {}, nullptr); } catch (PathEnd &) { die("cannot start"); }
  worklist.push_back(std::move(init));
  auto t0 = std::chrono::steady_clock::now();
  bool timed_out = false;
  uint64_t tick = 0;
  while (!worklist.empty() && ST.paths < OPT.max_paths && VIOLS.size() < OPT.max_violations)
  {
    if (OPT.seed != 0 && worklist.size() > 1)
    {
      // seeded exploration order (verdicts do not depend on it; partial runs cover different paths)
      static uint64_t rng = 0; if (!rng) rng = OPT.seed * 6364136223846793005ULL + 1442695040888963407ULL;
      rng = rng * 6364136223846793005ULL + 1442695040888963407ULL;
      size_t k = (rng >> 33) % worklist.size();
      std::swap(worklist[k], worklist.back());
    }
    if (std::chrono::duration<double>(std::chrono::steady_clock::now() - t0).count() > OPT.timeout_s) { timed_out = true; break; }
    State s = std::move(worklist.back()); worklist.pop_back();
    while (step(s))
    {
      if ((++tick & 0xfff) == 0 && std::chrono::duration<double>(std::chrono::steady_clock::now() - t0).count() > OPT.timeout_s) { timed_out = true; break; }
    }
    if (timed_out) { worklist.push_back(std::move(s)); break; }
  }
  double wall = std::chrono::duration<double>(std::chrono::steady_clock::now() - t0).count();
  int status = 0;
  if (!VIOLS.empty()) status = 1;
  else if (INCONCLUSIVE || !worklist.empty() || ST.abandoned) status = 2;
  if (!worklist.empty() && INCONCLUSIVE_WHY.empty()) INCONCLUSIVE_WHY = timed_out ? "time budget exhausted with paths pending" : "path budget exhausted with paths pending";
  for (auto &v : VIOLS) printf("SYMX-VIOLATION [%s] %s | fn=%s loc=%s count=%lu\n", v.kind.c_str(), v.msg.c_str(), v.fn.c_str(), v.loc.c_str(), v.count);
  if (OPT.verbose) { std::vector<std::pair<uint64_t, std::string>> fs; for (auto &kv : FORK_SITES) fs.push_back({kv.second, kv.first}); std::sort(fs.rbegin(), fs.rend()); for (size_t i = 0; i < fs.size() && i < 12; i++) fprintf(stderr, "symx: fork site %lu x %s\n", fs[i].first, fs[i].second.c_str()); }
  if (OPT.verbose) fprintf(stderr, "symx: time simplify=%.2f model_eval=%.2f enum=%.2f copy=%.2f\n", T_SIMPLIFY, T_MODEL, T_ENUM, T_COPY);
  printf("symx: entry=%s paths=%lu completed=%lu infeasible=%lu forks=%lu steps=%lu queries=%lu (cache %lu, model %lu) solver_s=%.2f wall_s=%.2f violations=%zu pending=%zu status=%d\n",
         entry_name.c_str(), ST.paths, ST.completed, ST.infeasible, ST.forks, ST.steps, ST.queries, ST.cache_hits, ST.model_hits, ST.solver_s, wall, VIOLS.size(), worklist.size(), status);
  if (!OPT.out.empty()) write_json(OPT.out, entry_name, wall, status);
  fflush(stdout);
  _exit(status);
}
