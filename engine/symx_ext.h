// symx: models of external (libc / harness API) functions
#pragma once
#include "symx_mem.h"

static void set_reg(State &s, const Value *v, const Val &x);

// ---------------------------------------------------------------- integer rendering
static std::vector<Byte> render_int(State &s, const Val &v, char conv, bool is_signed, unsigned width, bool zero, bool left, unsigned argbits)
{
  unsigned base = (conv == 'x' || conv == 'X') ? 16 : (conv == 'o' ? 8 : 10);
  auto pad = [&](std::vector<Byte> &digits, bool neg) {
    std::vector<Byte> out;
    unsigned len = digits.size() + (neg ? 1 : 0);
    unsigned p = width > len ? width - len : 0;
    if (!left && !zero) for (unsigned i = 0; i < p; i++) out.push_back(cbyte(' '));
    if (neg) out.push_back(cbyte('-'));
    if (!left && zero) for (unsigned i = 0; i < p; i++) out.push_back(cbyte('0'));
    for (auto &d : digits) out.push_back(d);
    if (left) for (unsigned i = 0; i < p; i++) out.push_back(cbyte(' '));
    return out;
  };
  if (v.conc)
  {
    uint64_t u = maskbits(v.c, argbits); bool neg = false;
    if (is_signed) { int64_t sv = sext64(u, argbits); if (sv < 0) { neg = true; u = (uint64_t)0 - (uint64_t)sv; u = maskbits(u, argbits); } }
    char buf[70]; int n = 0;
    do { unsigned d = u % base; buf[n++] = d < 10 ? '0' + d : (conv == 'X' ? 'A' : 'a') + d - 10; u /= base; } while (u);
    std::vector<Byte> digits; while (n > 0) digits.push_back(cbyte(buf[--n]));
    return pad(digits, neg);
  }
  z3::expr e = *v.e;
  bool neg = false;
  if (is_signed)
  {
    z3::expr isneg = z3::slt(e, Z.bv_val(0, argbits));
    bool mn = may_be_true(s, isneg), mp = may_be_true(s, !isneg);
    if (mn && mp) { ForkReq fr; fr.alts.push_back(isneg); fr.alts.push_back(!isneg); throw fr; }
    neg = mn;
  }
  z3::expr mag = (neg ? (-e) : e).simplify();
  unsigned maxd = base == 16 ? (argbits + 3) / 4 : base == 8 ? (argbits + 2) / 3 : (argbits <= 8 ? 3 : argbits <= 16 ? 5 : argbits <= 32 ? 10 : 20);
  auto powv = [&](unsigned k) { uint64_t p = 1; for (unsigned i = 0; i < k; i++) p *= base; return p; };
  std::vector<z3::expr> cls;
  for (unsigned nd = 1; nd <= maxd; nd++)
  {
    z3::expr lo = Z.bool_val(true), hi = Z.bool_val(true);
    bool hi_overflow = (base == 16) ? (4 * nd >= argbits) : base == 8 ? (3 * nd >= argbits) : (nd >= maxd);
    if (nd > 1) lo = z3::uge(mag, Z.bv_val(powv(nd - 1), argbits));
    if (!hi_overflow) hi = z3::ult(mag, Z.bv_val(powv(nd), argbits));
    cls.push_back((lo && hi).simplify());
  }
  int chosen = -1;
  for (unsigned i = 0; i < cls.size(); i++) if (cls[i].is_true() || s.known.count(eid(cls[i]))) { chosen = i; break; }
  if (chosen < 0)
  {
    std::vector<unsigned> feas;
    for (unsigned i = 0; i < cls.size(); i++) if (may_be_true(s, cls[i])) feas.push_back(i);
    if (feas.empty()) throw PathEnd{"infeasible"};
    if (OPT.render_classes && feas.size() > OPT.render_classes)
    {
      // bounded exploration of digit-count classes (stated in the evidence): shortest, longest and evenly spaced ones in between
      std::vector<unsigned> keep; unsigned n = OPT.render_classes;
      for (unsigned k = 0; k < n; k++) keep.push_back(feas[(size_t)k * (feas.size() - 1) / (n > 1 ? n - 1 : 1)]);
      ST.pruned_render += feas.size() - keep.size();
      feas = keep;
    }
    if (feas.size() > 1) { ForkReq fr; for (unsigned i : feas) fr.alts.push_back(cls[i]); throw fr; }
    chosen = feas[0];
    add_constraint(s, cls[chosen]);
  }
  unsigned nd = chosen + 1;
  std::vector<Byte> digits;
  if (base == 16 || base == 8)
  {
    unsigned sh = base == 16 ? 4 : 3;
    for (unsigned i = 0; i < nd; i++)
    {
      unsigned k = nd - 1 - i;
      z3::expr nib = z3::zext(z3::lshr(mag, Z.bv_val(sh * k, argbits)).extract(sh - 1, 0), 8 - sh);
      z3::expr d = base == 8 ? nib + Z.bv_val('0', 8)
                 : z3::ite(z3::ult(nib, Z.bv_val(10, 8)), nib + Z.bv_val('0', 8), nib + Z.bv_val((conv == 'X' ? 'A' : 'a') - 10, 8));
      digits.push_back(sbyte(d));
    }
  }
  else
  {
    // was this magnitude rendered before with this many digits on this path?  reuse the digit variables
    for (auto &r : s.rendered)
      if (eid(*r.value) == eid(mag) && r.digit_ids.size() == nd && r.guard_id == eid(cls[chosen]))
      {
        digits = r.digit_bytes;
        return pad(digits, neg);
      }
    // defining constraint in the narrowest width that holds 10^nd (cheaper to bit-blast than 64 bits);
    // the class constraint (mag < 10^nd) is already on the path, so the low w bits determine mag
    unsigned w = 8; { unsigned __int128 lim = 1; for (unsigned i = 0; i < nd; i++) lim *= 10; while (w < 64 && ((unsigned __int128)1 << w) <= lim) w++; if (w < 64) w++; if (w > 64) w = 64; }
    if (w < 9) w = 9;
    z3::expr sum = Z.bv_val(0, w);
    Rendered rd; rd.value = mkep(mag); rd.guard_id = eid(cls[chosen]); rd.neg = neg;
    std::vector<z3::expr> dv;
    for (unsigned i = 0; i < nd; i++)
    {
      z3::expr d = Z.bv_const(("dig!" + std::to_string(s.nsym++)).c_str(), 8);
      dv.push_back(d);
      add_constraint(s, z3::ule(d, Z.bv_val(9, 8)));
      sum = sum * Z.bv_val(10, w) + z3::zext(d, w - 8);
    }
    z3::expr magw = argbits < w ? z3::zext(mag, w - argbits) : (argbits > w ? mag.extract(w - 1, 0) : mag);
    if (nd == 20) add_constraint(s, dv[0] == Z.bv_val(1, 8));
    add_constraint(s, sum == magw);
    for (unsigned i = 0; i < nd; i++)
    {
      Byte b = sbyte(dv[i] + Z.bv_val('0', 8));
      rd.digit_ids.push_back(b.k == BK_SYM ? eid(*b.e) : 0);
      rd.digit_bytes.push_back(b);
      digits.push_back(b);
    }
    s.rendered.push_back(rd);
  }
  return pad(digits, neg);
}

// formatted output: returns rendered bytes (may throw ForkReq / PathEnd)
static std::vector<Byte> format(State &s, const std::vector<Byte> &fmt, const std::vector<Val> &args)
{
  std::vector<Byte> out;
  size_t ai = 0;
  for (size_t i = 0; i < fmt.size();)
  {
    if (fmt[i].k != BK_CONC) die("symbolic format string");
    char c = fmt[i++].c;
    if (c != '%') { out.push_back(cbyte(c)); continue; }
    bool left = false, zero = false; unsigned width = 0; int lmod = 0; int prec = -1;
    while (i < fmt.size()) { char f = fmt[i].c; if (f == '-') left = true; else if (f == '0') zero = true; else if (f == ' ' || f == '+' || f == '#') die("format: unsupported flag '%c'", f); else break; i++; }
    while (i < fmt.size() && fmt[i].c >= '0' && fmt[i].c <= '9') { width = width * 10 + (fmt[i].c - '0'); i++; }
    if (i < fmt.size() && fmt[i].c == '.') { i++; prec = 0; while (i < fmt.size() && fmt[i].c >= '0' && fmt[i].c <= '9') { prec = prec * 10 + (fmt[i].c - '0'); i++; } }
    while (i < fmt.size()) { char f = fmt[i].c; if (f == 'l') lmod++; else if (f == 'z' || f == 'j' || f == 't') lmod = 2; else if (f == 'h') lmod--; else break; i++; }
    if (i >= fmt.size()) break;
    char conv = fmt[i++].c;
    if (conv == '%') { out.push_back(cbyte('%')); continue; }
    if (ai >= args.size()) { violation(s, "format", "format: too few arguments", nullptr); throw PathEnd{"format"}; }
    const Val &arg = args[ai++];
    auto padded = [&](const std::vector<Byte> &body) {
      unsigned p = width > body.size() ? width - body.size() : 0;
      if (!left) for (unsigned k = 0; k < p; k++) out.push_back(cbyte(' '));
      for (auto &b : body) out.push_back(b);
      if (left) for (unsigned k = 0; k < p; k++) out.push_back(cbyte(' '));
    };
    if (conv == 'c') { std::vector<Byte> b1; b1.push_back(arg.conc ? cbyte((uint8_t)arg.c) : sbyte(arg.e->extract(7, 0))); padded(b1); continue; }
    if (conv == 's')
    {
      std::vector<Byte> str;
      read_cstr(s, arg, str, "format %s", prec >= 0 ? (uint64_t)prec : ~0ULL);
      padded(str); continue;
    }
    if (conv == 'd' || conv == 'i' || conv == 'u' || conv == 'x' || conv == 'X' || conv == 'o' || conv == 'p')
    {
      if (prec >= 0) die("format: precision on integer conversion unsupported");
      unsigned argbits = (lmod >= 1 || conv == 'p') ? 64 : 32;
      if (conv == 'p') conv = 'x';
      Val a2 = arg;
      if (a2.isptr && a2.obj >= 0) { a2 = mk_int(64, 0x10000000ULL * a2.obj + a2.c); }
      if (a2.bits != argbits)
      {
        if (a2.conc) a2 = mk_int(argbits, a2.c);
        else a2 = mk_sym(argbits, a2.bits > argbits ? a2.e->extract(argbits - 1, 0) : z3::zext(*a2.e, argbits - a2.bits));
      }
      bool sg = conv == 'd' || conv == 'i';
      if (lmod < 0)
      {
        unsigned nb = lmod == -1 ? 16 : 8;
        if (a2.conc) a2 = mk_int(argbits, sg ? (uint64_t)sext64(a2.c, nb) : maskbits(a2.c, nb));
        else a2 = mk_sym(argbits, sg ? z3::sext(a2.e->extract(nb - 1, 0), argbits - nb) : z3::zext(a2.e->extract(nb - 1, 0), argbits - nb));
      }
      std::vector<Byte> r = render_int(s, a2, conv, sg, width, zero, left, argbits);
      out.insert(out.end(), r.begin(), r.end());
      continue;
    }
    if (conv == 'f' || conv == 'g' || conv == 'e')
    {
      if (!arg.conc) die("format: symbolic floating point");
      double d; uint64_t bits = arg.c; memcpy(&d, &bits, 8);
      char f2[32], buf[128]; snprintf(f2, sizeof f2, "%%%s%s%u.%d%c", left ? "-" : "", zero ? "0" : "", width, prec < 0 ? 6 : prec, conv);
      snprintf(buf, sizeof buf, f2, d);
      for (char *q = buf; *q; q++) out.push_back(cbyte(*q));
      continue;
    }
    die("format: unsupported conversion %%%c", conv);
  }
  return out;
}

// ---------------------------------------------------------------- helpers
static uint64_t concretize(State &s, const Val &v, unsigned limit, const char *what)
{
  if (v.conc) return v.c;
  std::vector<uint64_t> vals = feasible_values(s, *v.e, limit);
  if (vals.size() > limit) die("%s: symbolic value with more than %u feasible values", what, limit);
  if (vals.empty()) throw PathEnd{"infeasible"};
  if (vals.size() == 1) return vals[0];
  ForkReq fr; for (uint64_t x : vals) fr.alts.push_back(*v.e == Z.bv_val(x, v.bits));
  throw fr;
}

static Val fresh_input(State &s, const std::string &name, unsigned bits)
{
  std::string n = name + "#" + std::to_string(s.inputs.size());
  if (OPT.concrete_inputs)
  {
    uint64_t v = s.input_cursor < OPT.concrete.size() ? OPT.concrete[s.input_cursor] : 0;
    s.input_cursor++;
    Input in; in.name = n; in.bits = bits; in.e = mkep(Z.bv_val(maskbits(v, bits), bits)); s.inputs.push_back(in);
    return mk_int(bits, v);
  }
  z3::expr e = Z.bv_const(n.c_str(), bits);
  Input in; in.name = n; in.bits = bits; in.e = mkep(e); s.inputs.push_back(in);
  Val v; v.bits = bits; v.conc = false; v.e = in.e; return v;
}

static Stream *get_stream(State &s, const Val &fp, const char *what)
{
  if (!fp.isptr || fp.obj < 0) { violation(s, "null", std::string(what) + ": NULL FILE*", nullptr); throw PathEnd{"null FILE"}; }
  auto it = s.streams.find(fp.obj);
  if (it == s.streams.end()) { violation(s, "badfile", std::string(what) + ": not a FILE*", nullptr); throw PathEnd{"bad FILE"}; }
  if (!it->second.open) { violation(s, "uaf", std::string(what) + ": use of closed FILE*", nullptr); throw PathEnd{"closed FILE"}; }
  return &it->second;
}
static bool CAPTURE_STDOUT_DEFAULT = false;
static bool is_sink(State &s, Stream *st) { return (st->name == "<stdout>" || st->name == "<stderr>") && !s.files.count(st->name); }
static VFile &wfile(State &s, const std::string &name)
{
  auto &p = s.files[name];
  if (!p) p = std::make_shared<VFile>();
  else if (p.use_count() > 1) p = std::make_shared<VFile>(*p);
  return *p;
}
static void stream_write(State &s, Stream *st, const std::vector<Byte> &bytes)
{
  if (is_sink(s, st)) return;
  VFile &f = wfile(s, st->name);
  for (auto &b : bytes) { if (st->pos < f.data.size()) f.data[st->pos] = b; else { while (f.data.size() < st->pos) f.data.push_back(cbyte(0)); f.data.push_back(b); } st->pos++; }
}
static void mem_write_raw(State &s, const Val &p, const std::vector<Byte> &bytes, const char *what) { write_bytes(s, p, bytes, false, what); }
static std::vector<Byte> mem_read_raw(State &s, const Val &p0, uint64_t n, const char *what)
{
  std::vector<Byte> out; if (n == 0) return out;
  Val p = p0; if (!p.conc) { p.c = concretize(s, mk_sym(64, *p.e), 64, what); p.conc = true; p.e.reset(); }
  check_access(s, p, n, what);
  const Obj &o = *find_obj(s, p.obj);
  for (uint64_t i = 0; i < n; i++) out.push_back(getb(o, p.c + i));
  return out;
}

static int heap_alloc(State &s, uint64_t n, OK kind, bool zero)
{
  s.heap_bytes += n;
  if (s.heap_bytes > (1ULL << 30)) { violation(s, "hugealloc", "more than 1 GiB allocated on one path (unbounded allocation?)", nullptr); throw PathEnd{"huge alloc"}; }
  return new_obj(s, n, kind == OK_NEW ? "new" : "malloc", kind, zero);
}
static void heap_free(State &s, const Val &p, OK kind, const char *what)
{
  if (!(p.isptr && p.obj >= 0)) { if (p.conc && p.c == 0) return; violation(s, "badfree", std::string(what) + " of non-pointer", nullptr); throw PathEnd{"badfree"}; }
  const Obj *o = find_obj(s, p.obj);
  if (!o || !o->alive) { violation(s, "doublefree", std::string(what) + ": double free", nullptr); throw PathEnd{"double free"}; }
  if (o->kind != kind || !p.conc || p.c != 0) { violation(s, "badfree", std::string(what) + " of pointer not obtained from the matching allocator (" + o->name + ")", nullptr); throw PathEnd{"badfree"}; }
  Obj &w = wobj(s, p.obj); w.alive = false; w.ch.clear(); w.size = 0;
}

static Val strcmp_model(State &s, const std::vector<Byte> &a, const std::vector<Byte> &b, bool fold, uint64_t n, unsigned rbits)
{
  // strings have concrete lengths here (NUL positions decided by read_cstr)
  auto lcx = [&](const Byte &x) {
    if (x.k == BK_CONC) { uint8_t c = x.c; if (fold && c >= 'A' && c <= 'Z') c += 32; return Z.bv_val((unsigned)c, 8); }
    z3::expr e = *x.e;
    if (!fold) return e;
    return z3::ite(z3::uge(e, Z.bv_val('A', 8)) && z3::ule(e, Z.bv_val('Z', 8)), e + Z.bv_val(32, 8), e);
  };
  size_t len = std::max(a.size(), b.size()) + 1;
  if (n < len) len = n;
  z3::expr r = Z.bv_val(0, rbits);
  for (size_t k = len; k > 0; k--)
  {
    size_t i = k - 1;
    z3::expr x = i < a.size() ? lcx(a[i]) : Z.bv_val(0, 8);
    z3::expr y = i < b.size() ? lcx(b[i]) : Z.bv_val(0, 8);
    r = z3::ite(x == y, r, z3::zext(x, rbits - 8) - z3::zext(y, rbits - 8));
  }
  return mk_sym(rbits, r);
}

// ---------------------------------------------------------------- the dispatcher
// returns false when the path ended
static void push_frame(State &s, const Function *f, const std::vector<Val> &args, const CallInst *cs);
static int EXIT_HOOK_OBJ = -1;

static bool call_external(State &s, const CallInst *ci, const std::string &name, std::vector<Val> &args)
{
  Type *rt = ci->getType();
  // multi-target pointers are accepted only where a source string is read (read_cstr); everything else is resolved first
  for (size_t ai = 0; ai < args.size(); ai++)
  {
    if (!args[ai].multi) continue;
    bool src_ok = false;
    if ((name == "snprintf" && ai >= 3) || (name == "sprintf" && ai >= 2) || (name == "printf" && ai >= 1) || (name == "fprintf" && ai >= 2)) src_ok = true;
    if ((name == "strcpy" || name == "strcat") && ai == 1) src_ok = true;
    if (name == "strlen" || name == "strcmp" || name == "strcasecmp" || name == "strncmp" || name == "strncasecmp" || name == "puts") src_ok = true;
    if (name == "fputs" && ai == 0) src_ok = true;
    if (name == "symx_note_str" && ai == 1) src_ok = true;
    if (!src_ok) args[ai] = resolve_ptr(s, args[ai]);
  }
  auto ret_int = [&](uint64_t v) { if (!rt->isVoidTy()) set_reg(s, ci, rt->isPointerTy() ? [&] { Val p = mk_int(64, v); p.isptr = true; return p; }() : mk_int(rt->getIntegerBitWidth(), v)); };
  auto ret_val = [&](const Val &v) { if (!rt->isVoidTy()) set_reg(s, ci, v); };

  // ---- harness API
  if (name == "symx_u8" || name == "symx_u16" || name == "symx_u32" || name == "symx_u64")
  {
    std::string n = conc_str(s, args[0], "symx name");
    ret_val(fresh_input(s, n, rt->getIntegerBitWidth())); return true;
  }
  if (name == "symx_make_symbolic")
  {
    std::string n = conc_str(s, args[2], "symx name");
    uint64_t len = concretize(s, args[1], 1, "symx_make_symbolic length");
    std::vector<Byte> bytes;
    for (uint64_t i = 0; i < len; i++) { Val v = fresh_input(s, n + "[" + std::to_string(i) + "]", 8); bytes.push_back(v.conc ? cbyte(v.c) : sbyte(*v.e)); }
    mem_write_raw(s, args[0], bytes, "symx_make_symbolic"); return true;
  }
  if (name == "symx_assume")
  {
    Val c = args[0];
    if (c.conc) { if (!c.c) throw PathEnd{"assume false"}; return true; }
    z3::expr t = (ex(c) != Z.bv_val(0, c.bits));
    if (!may_be_true(s, t)) throw PathEnd{"assume infeasible"};
    add_constraint(s, t); return true;
  }
  if (name == "symx_assert")
  {
    Val c = args[0];
    std::string msg = conc_str(s, args[1], "assert msg");
    ST.asserts_checked++;
    if (c.conc) { if (!c.c) violation(s, "assert", msg, nullptr); return true; }
    z3::expr bad = (ex(c) == Z.bv_val(0, c.bits));
    if (may_be_true(s, bad))
    {
      violation(s, "assert", msg, &bad);
      if (!may_be_true(s, !bad)) throw PathEnd{"assert always fails"};
      add_constraint(s, !bad);
    }
    return true;
  }
  if (name == "symx_note") { Note n; n.tag = conc_str(s, args[0], "note tag"); n.v = args[1]; s.notes.push_back(n); return true; }
  if (name == "symx_note_str")
  {
    Note n; n.tag = conc_str(s, args[0], "note tag"); n.is_text = true;
    std::vector<Byte> b; read_cstr(s, args[1], b, "note text");
    for (auto &x : b) n.text += x.k == BK_CONC ? (char)x.c : '?';
    s.notes.push_back(n); return true;
  }
  if (name == "symx_cover") { s.covers.insert(conc_str(s, args[0], "cover tag")); return true; }
  if (name == "symx_concretize") { uint64_t v = concretize(s, args[0], 4096, "symx_concretize"); ret_int(v); return true; }
  if (name == "symx_is_symbolic") { ret_int(args[0].conc ? 0 : 1); return true; }
  if (name == "symx_on_exit") { EXIT_HOOK_OBJ = args[0].obj; return true; }
  if (name == "symx_capture_stdout") { if (args[0].c) wfile(s, "<stdout>"); else s.files.erase("<stdout>"); return true; }
  if (name == "symx_obj_remaining")
  {
    const Obj *o = access_obj(s, args[0], "symx_obj_remaining");
    if (!args[0].conc) die("symx_obj_remaining of symbolic pointer");
    ret_int(o->size - args[0].c); return true;
  }
  if (name == "symx_mem_equal")
  {
    uint64_t n = concretize(s, args[2], 1, "symx_mem_equal length");
    std::vector<Byte> a = mem_read_raw(s, args[0], n, "symx_mem_equal"), b = mem_read_raw(s, args[1], n, "symx_mem_equal");
    z3::expr all = Z.bool_val(true);
    for (uint64_t i = 0; i < n; i++)
    {
      if (a[i].k == BK_UNINIT && b[i].k == BK_UNINIT) continue;
      if (a[i].k == BK_PTR || b[i].k == BK_PTR)
      {
        bool same = a[i].k == b[i].k && a[i].pobj == b[i].pobj && a[i].poff == b[i].poff && a[i].pidx == b[i].pidx && !a[i].poffe && !b[i].poffe;
        if (!same) all = Z.bool_val(false);
        continue;
      }
      if (a[i].k == BK_UNINIT || b[i].k == BK_UNINIT) { all = Z.bool_val(false); continue; }
      all = all && (byte_ex(a[i]) == byte_ex(b[i]));
    }
    ret_val(mk_sym(32, z3::ite(all, Z.bv_val(1, 32), Z.bv_val(0, 32)))); return true;
  }
  if (name == "symx_file_put")
  {
    std::string fn = conc_str(s, args[0], "file name");
    uint64_t n = concretize(s, args[2], 1, "symx_file_put length");
    VFile &f = wfile(s, fn); f.data = mem_read_raw(s, args[1], n, "symx_file_put"); f.exists = true; return true;
  }
  if (name == "symx_file_size")
  {
    std::string fn = conc_str(s, args[0], "file name");
    auto it = s.files.find(fn);
    ret_int(it == s.files.end() || !it->second->exists ? (uint64_t)-1 : it->second->data.size()); return true;
  }
  if (name == "symx_file_get")
  {
    std::string fn = conc_str(s, args[0], "file name");
    auto it = s.files.find(fn);
    if (it == s.files.end() || !it->second->exists) { ret_int((uint64_t)-1); return true; }
    uint64_t mx = concretize(s, args[2], 1, "symx_file_get max");
    std::vector<Byte> d = it->second->data; if (d.size() > mx) d.resize(mx);
    for (auto &b : d) if (b.k == BK_UNINIT) b = cbyte(0);
    mem_write_raw(s, args[1], d, "symx_file_get");
    ret_int(d.size()); return true;
  }

  // ---- stdio
  if (name == "fopen")
  {
    std::string fn = conc_str(s, args[0], "fopen name"), mode = conc_str(s, args[1], "fopen mode");
    bool wr = mode.find('w') != std::string::npos, ap = mode.find('a') != std::string::npos, plus = mode.find('+') != std::string::npos;
    auto it = s.files.find(fn);
    bool exists = it != s.files.end() && it->second->exists;
    if (!wr && !ap && !exists) { ret_int(0); return true; }
    if (wr || (ap && !exists)) { VFile &f = wfile(s, fn); if (wr) f.data.clear(); f.exists = true; }
    int id = new_obj(s, 16, "FILE:" + fn, OK_FILE, true);
    Stream st; st.name = fn; st.writable = wr || ap || plus; st.readable = !(wr || ap) || plus; st.pos = ap ? s.files[fn]->data.size() : 0;
    s.streams[id] = st;
    s.notes.push_back(Note{"fopen", Val(), fn + ":" + mode, true});
    ret_val(mk_ptr(id, 0)); return true;
  }
  if (name == "fclose")
  {
    Stream *st = get_stream(s, args[0], "fclose"); st->open = false;
    s.notes.push_back(Note{"fclose", Val(), st->name, true});
    ret_int(0); return true;
  }
  if (name == "fflush" || name == "signal" || name == "usleep" || name == "setvbuf") { ret_int(0); return true; }
  if (name == "unlink" || name == "remove")
  {
    std::string fn = conc_str(s, args[0], "unlink name");
    s.notes.push_back(Note{"unlink", Val(), fn, true});
    auto it = s.files.find(fn);
    if (it == s.files.end() || !it->second->exists) { ret_int((uint64_t)-1); return true; }
    wfile(s, fn).exists = false; ret_int(0); return true;
  }
  if (name == "printf" || name == "fprintf")
  {
    unsigned fi = name == "printf" ? 0 : 1;
    Stream *st = nullptr;
    if (name == "fprintf") st = get_stream(s, args[0], "fprintf");
    else { for (auto &kv : s.streams) if (kv.second.name == "<stdout>") st = &kv.second; }
    if (!st || is_sink(s, st)) { ret_int(0); return true; }
    std::vector<Byte> fmt; read_cstr(s, args[fi], fmt, "format string");
    std::vector<Val> va(args.begin() + fi + 1, args.end());
    std::vector<Byte> out = format(s, fmt, va);
    stream_write(s, st, out); ret_int(out.size()); return true;
  }
  if (name == "puts" || name == "putchar" || name == "fputs" || name == "putc" || name == "fputc")
  {
    Stream *st = nullptr;
    if (name == "puts" || name == "putchar") { for (auto &kv : s.streams) if (kv.second.name == "<stdout>") st = &kv.second; }
    else st = get_stream(s, args[1], name.c_str());
    if (!st || is_sink(s, st)) { ret_int(name == "putc" || name == "fputc" || name == "putchar" ? (args[0].conc ? args[0].c & 0xff : 0) : 0); return true; }
    std::vector<Byte> out;
    if (name == "puts" || name == "fputs") { read_cstr(s, args[0], out, name.c_str()); if (name == "puts") out.push_back(cbyte('\n')); }
    else out.push_back(args[0].conc ? cbyte(args[0].c) : sbyte(args[0].e->extract(7, 0)));
    stream_write(s, st, out);
    if (name == "putc" || name == "fputc" || name == "putchar") ret_val(args[0].conc ? mk_int(32, args[0].c & 0xff) : mk_sym(32, z3::zext(args[0].e->extract(7, 0), 24)));
    else ret_int(1);
    return true;
  }
  if (name == "fwrite")
  {
    Stream *st = get_stream(s, args[3], "fwrite");
    uint64_t sz = concretize(s, args[1], 16, "fwrite size"), cnt = concretize(s, args[2], 64, "fwrite count");
    std::vector<Byte> d = mem_read_raw(s, args[0], sz * cnt, "fwrite");
    for (auto &b : d) if (b.k == BK_UNINIT) { violation(s, "uninit", "fwrite of uninitialised bytes to " + st->name, nullptr); b = cbyte(0); }
    for (auto &b : d) if (b.k == BK_PTR) b = cbyte(0);
    stream_write(s, st, d); ret_int(cnt); return true;
  }
  if (name == "getc" || name == "fgetc")
  {
    Stream *st = get_stream(s, args[0], "getc");
    if (st->unget >= 0) { int c = st->unget; st->unget = -1; ret_int(c); return true; }
    auto it = s.files.find(st->name);
    if (it == s.files.end() || st->pos >= it->second->data.size()) { st->eof = true; ret_int((uint64_t)-1); return true; }
    Byte b = it->second->data[st->pos++];
    ret_val(b.k == BK_CONC ? mk_int(32, b.c) : b.k == BK_SYM ? mk_sym(32, z3::zext(*b.e, 24)) : mk_int(32, 0)); return true;
  }
  if (name == "ungetc") { Stream *st = get_stream(s, args[1], "ungetc"); st->unget = args[0].conc ? (int)args[0].c : 0; if (!args[0].conc) die("ungetc of symbolic"); ret_int(args[0].c); return true; }
  if (name == "fread")
  {
    Stream *st = get_stream(s, args[3], "fread");
    uint64_t sz = concretize(s, args[1], 64, "fread size"), cnt = concretize(s, args[2], 64, "fread count");
    auto it = s.files.find(st->name);
    uint64_t avail = it == s.files.end() || st->pos >= it->second->data.size() ? 0 : it->second->data.size() - st->pos;
    uint64_t items = sz ? std::min(cnt, avail / sz) : 0;
    uint64_t nbytes = sz ? std::min(sz * cnt, avail) : 0;    // a partial last item is still copied, as glibc does
    if (sz * cnt > 0)
    {
      // the destination must be able to hold the full request (that is what the caller promises)
      check_access(s, args[0].conc ? args[0] : args[0], sz * cnt, "fread destination");
    }
    std::vector<Byte> d;
    for (uint64_t i = 0; i < nbytes; i++) { Byte b = it->second->data[st->pos + i]; if (b.k == BK_UNINIT) b = cbyte(0); d.push_back(b); }
    st->pos += nbytes; if (items < cnt) st->eof = true;
    mem_write_raw(s, args[0], d, "fread");
    ret_int(items); return true;
  }
  if (name == "fgets")
  {
    Stream *st = get_stream(s, args[2], "fgets");
    uint64_t n = concretize(s, args[1], 1, "fgets size");
    auto it = s.files.find(st->name);
    std::vector<Byte> d;
    while (d.size() + 1 < n && it != s.files.end() && st->pos < it->second->data.size())
    {
      Byte b = it->second->data[st->pos];
      if (b.k == BK_SYM)
      {
        z3::expr nl = (*b.e == Z.bv_val('\n', 8));
        bool m1 = may_be_true(s, nl), m2 = may_be_true(s, !nl);
        if (m1 && m2) { ForkReq fr; fr.alts.push_back(nl); fr.alts.push_back(!nl); throw fr; }
        st->pos++; d.push_back(b); if (m1) break; continue;
      }
      st->pos++; d.push_back(b); if (b.k == BK_CONC && b.c == '\n') break;
    }
    if (d.empty()) { st->eof = true; ret_int(0); return true; }
    write_bytes(s, args[0], d, true, "fgets"); ret_val(args[0]); return true;
  }
  if (name == "feof") { Stream *st = get_stream(s, args[0], "feof"); ret_int(st->eof ? 1 : 0); return true; }
  if (name == "ftell") { Stream *st = get_stream(s, args[0], "ftell"); ret_int(st->pos); return true; }
  if (name == "fseek")
  {
    Stream *st = get_stream(s, args[0], "fseek");
    auto it = s.files.find(st->name);
    uint64_t size = it == s.files.end() ? 0 : it->second->data.size();
    int64_t whence = args[2].c;
    Val offv = args[1];
    if (!offv.conc)
    {
      // symbolic seek offsets: positions beyond EOF all behave alike (reads return EOF): split into in-file values and "beyond"
      z3::expr base = whence == 0 ? Z.bv_val(0, 64) : whence == 1 ? Z.bv_val(st->pos, 64) : Z.bv_val(size, 64);
      z3::expr np = base + *offv.e;
      z3::expr beyond = z3::ugt(np, Z.bv_val(size, 64));
      bool mb = may_be_true(s, beyond), mi = may_be_true(s, !beyond);
      if (mb && mi) { ForkReq fr; fr.alts.push_back(beyond); fr.alts.push_back(!beyond); throw fr; }
      if (mb)
      {
        // negative (huge) results fail; others park beyond EOF
        st->pos = size + 1; st->eof = false; st->unget = -1; ret_int(0); return true;
      }
      uint64_t v = concretize(s, mk_sym(64, np), 4096, "fseek position");
      st->pos = v; st->eof = false; st->unget = -1; ret_int(0); return true;
    }
    int64_t off = sext64(offv.c, 64);
    int64_t np = whence == 0 ? off : whence == 1 ? (int64_t)st->pos + off : (int64_t)size + off;
    if (np < 0) { ret_int((uint64_t)-1); return true; }
    st->pos = np; st->eof = false; st->unget = -1; ret_int(0); return true;
  }

  // ---- strings / memory
  if (name == "snprintf" || name == "sprintf")
  {
    bool bounded = name == "snprintf";
    unsigned fi = bounded ? 2 : 1;
    std::vector<Byte> fmt; read_cstr(s, args[fi], fmt, "format string");
    std::vector<Val> va(args.begin() + fi + 1, args.end());
    std::vector<Byte> out = format(s, fmt, va);
    uint64_t full = out.size();
    uint64_t size = bounded ? concretize(s, args[1], 1, "snprintf size") : ~0ULL;
    if (bounded && size == 0) { ret_int(full); return true; }
    if (bounded && out.size() + 1 > size) out.resize(size - 1);
    write_bytes(s, args[0], out, true, name.c_str());
    ret_int(full); return true;
  }
  if (name == "strcpy" || name == "strcat" || name == "strncpy" || name == "strncat")
  {
    std::vector<Byte> src;
    bool bounded = name == "strncpy" || name == "strncat";
    uint64_t n = bounded ? concretize(s, args[2], 1, "strncpy n") : ~0ULL;
    read_cstr(s, args[1], src, name.c_str(), n);
    Val dst = args[0];
    if (name == "strcat" || name == "strncat")
    {
      std::vector<Byte> d; read_cstr(s, args[0], d, "strcat dst");
      if (!dst.conc) die("strcat to symbolic pointer");
      dst.c += d.size();
    }
    if (name == "strncpy")
    {
      bool full = src.size() >= n;
      while (src.size() < n) src.push_back(cbyte(0));
      write_bytes(s, dst, src, false, name.c_str()); (void)full;
    }
    else write_bytes(s, dst, src, true, name.c_str());
    ret_val(args[0]); return true;
  }
  if (name == "strlen") { std::vector<Byte> a; read_cstr(s, args[0], a, "strlen"); ret_int(a.size()); return true; }
  if (name == "strcmp" || name == "strcasecmp" || name == "strncmp" || name == "strncasecmp")
  {
    bool bounded = name == "strncmp" || name == "strncasecmp";
    uint64_t n = bounded ? concretize(s, args[2], 8, "strncmp n") : ~0ULL;
    std::vector<Byte> a, b;
    read_cstr(s, args[0], a, name.c_str(), n); read_cstr(s, args[1], b, name.c_str(), n);
    ret_val(strcmp_model(s, a, b, name.find("case") != std::string::npos, n, 32)); return true;
  }
  if (name == "memcmp")
  {
    uint64_t n = concretize(s, args[2], 8, "memcmp n");
    std::vector<Byte> a = mem_read_raw(s, args[0], n, "memcmp"), b = mem_read_raw(s, args[1], n, "memcmp");
    z3::expr r = Z.bv_val(0, 32);
    for (size_t k = n; k > 0; k--)
    {
      size_t i = k - 1;
      if (a[i].k == BK_UNINIT || b[i].k == BK_UNINIT) { violation(s, "uninit", "memcmp reads uninitialised byte", nullptr); throw PathEnd{"uninit"}; }
      if (a[i].k == BK_PTR || b[i].k == BK_PTR) die("memcmp over pointer bytes");
      z3::expr x = byte_ex(a[i]), y = byte_ex(b[i]);
      r = z3::ite(x == y, r, z3::zext(x, 24) - z3::zext(y, 24));
    }
    ret_val(mk_sym(32, r)); return true;
  }
  if (name == "strchr" || name == "strrchr")
  {
    std::vector<Byte> a; read_cstr(s, args[0], a, name.c_str());
    if (!args[1].conc || !args[0].conc) die("strchr with symbolic argument");
    int64_t found = -1;
    for (size_t i = 0; i < a.size(); i++)
    {
      if (a[i].k != BK_CONC) die("strchr over symbolic bytes");
      if (a[i].c == (uint8_t)args[1].c) { found = i; if (name == "strchr") break; }
    }
    if ((uint8_t)args[1].c == 0) found = a.size();
    if (found < 0) { ret_int(0); return true; }
    Val r = args[0]; r.c += found; ret_val(r); return true;
  }
  if (name == "strdup")
  {
    std::vector<Byte> a; read_cstr(s, args[0], a, "strdup");
    int id = heap_alloc(s, a.size() + 1, OK_MALLOC, false);
    write_bytes(s, mk_ptr(id, 0), a, true, "strdup"); ret_val(mk_ptr(id, 0)); return true;
  }
  if (name == "memset" || name == "memcpy" || name == "memmove")
  {
    uint64_t n = concretize(s, args[2], 64, name.c_str());
    if (n)
    {
      if (name == "memset")
      {
        Val p = args[0]; if (!p.conc) { p.c = concretize(s, mk_sym(64, *p.e), 64, "memset dst"); p.conc = true; p.e.reset(); }
        check_access(s, p, n, "memset");
        if (find_obj(s, p.obj)->readonly) { violation(s, "rostore", "memset of read-only object", nullptr); throw PathEnd{"ro"}; }
        fillb(wobj(s, p.obj), p.c, n, args[1].conc ? cbyte(args[1].c) : sbyte(args[1].e->extract(7, 0)));
      }
      else
      {
        std::vector<Byte> d = mem_read_raw(s, args[1], n, name.c_str());
        mem_write_raw(s, args[0], d, name.c_str());
      }
    }
    ret_val(args[0]); return true;
  }
  if (name == "tolower" || name == "toupper")
  {
    Val c = args[0];
    if (c.conc) { uint64_t v = c.c; if (name == "tolower" && v >= 'A' && v <= 'Z') v += 32; if (name == "toupper" && v >= 'a' && v <= 'z') v -= 32; ret_int(v); return true; }
    z3::expr e = *c.e; unsigned w = c.bits;
    z3::expr up = z3::uge(e, Z.bv_val('A', w)) && z3::ule(e, Z.bv_val('Z', w));
    z3::expr lo = z3::uge(e, Z.bv_val('a', w)) && z3::ule(e, Z.bv_val('z', w));
    ret_val(mk_sym(w, name == "tolower" ? z3::ite(up, e + Z.bv_val(32, w), e) : z3::ite(lo, e - Z.bv_val(32, w), e)));
    return true;
  }
  if (name == "abs" || name == "labs" || name == "llabs")
  {
    Val c = args[0];
    if (c.conc) { int64_t v = sext64(c.c, c.bits); ret_int((uint64_t)(v < 0 ? -v : v)); return true; }
    ret_val(mk_sym(c.bits, z3::ite(z3::slt(*c.e, Z.bv_val(0, c.bits)), -*c.e, *c.e))); return true;
  }
  if (name == "atoll" || name == "atoi" || name == "atol" || name == "strtol" || name == "strtoul" || name == "strtoll" || name == "strtoull")
  {
    std::vector<Byte> a; read_cstr(s, args[0], a, name.c_str());
    unsigned rb = rt->getIntegerBitWidth();
    bool is_strto = name[0] == 's';
    unsigned base = 10;
    if (is_strto) { if (!args[2].conc) die("strtol: symbolic base"); base = args[2].c; }
    size_t i = 0; bool neg = false;
    auto isc = [&](size_t k, char ch) { return k < a.size() && a[k].k == BK_CONC && a[k].c == (uint8_t)ch; };
    while (i < a.size() && a[i].k == BK_CONC && (a[i].c == ' ' || (a[i].c >= 9 && a[i].c <= 13))) i++;
    if (isc(i, '-') || isc(i, '+')) { neg = a[i].c == '-'; i++; }
    if (is_strto && (base == 0 || base == 16) && isc(i, '0') && (isc(i + 1, 'x') || isc(i + 1, 'X'))) { base = 16; i += 2; }
    else if (is_strto && base == 0) base = isc(i, '0') ? 8 : 10;
    size_t start = i;
    // shortcut: digits produced by rendering a value
    if (base == 10)
    {
      size_t j = i; std::vector<unsigned> ids;
      while (j < a.size() && a[j].k == BK_SYM) { ids.push_back(eid(*a[j].e)); j++; }
      bool ends = j >= a.size() || (a[j].k == BK_CONC && !(a[j].c >= '0' && a[j].c <= '9'));
      if (!ids.empty() && ends)
        for (auto &r : s.rendered)
          if (r.digit_ids == ids && s.known.count(r.guard_id))
          {
            z3::expr mag = *r.value; unsigned mb = mag.get_sort().bv_size();
            z3::expr m64 = mb < 64 ? z3::zext(mag, 64 - mb) : mag;
            z3::expr v = neg ? -m64 : m64;
            if (mb == 64 && name != "strtoul" && name != "strtoull")
            {
              // glibc saturates: LLONG_MAX / LLONG_MIN when the digits exceed the signed range
              z3::expr maxp = Z.bv_val((uint64_t)0x7fffffffffffffffULL, 64), minn = Z.bv_val((uint64_t)0x8000000000000000ULL, 64);
              v = neg ? z3::ite(z3::ugt(m64, minn), minn, -m64) : z3::ite(z3::ugt(m64, maxp), maxp, m64);
            }
            ret_val(mk_sym(rb, rb < 64 ? v.extract(rb - 1, 0) : v));
            if (is_strto && args[1].isptr && args[1].obj >= 0) { Val e = args[0]; e.c += j; do_store(s, args[1], e, 64); }
            return true;
          }
    }
    // wide accumulator only when the digit count could overflow 63 bits: saturation (glibc strtoll) is decided on the exact value
    const unsigned AW = (a.size() - i > 18 || base != 10) ? 80 : 64;
    z3::expr acc = Z.bv_val(0, AW); bool allc = true; unsigned __int128 cv = 0; bool cv_sat = false;
    for (; i < a.size(); i++)
    {
      if (a[i].k == BK_CONC)
      {
        int d = -1; uint8_t ch = a[i].c;
        if (ch >= '0' && ch <= '9') d = ch - '0'; else if (ch >= 'a' && ch <= 'z') d = ch - 'a' + 10; else if (ch >= 'A' && ch <= 'Z') d = ch - 'A' + 10;
        if (d < 0 || d >= (int)base) break;
        cv = cv * base + d; if (cv >> 70) { cv_sat = true; cv = 0; }
        if (!allc) acc = acc * Z.bv_val(base, AW) + Z.bv_val((uint64_t)d, AW);
        continue;
      }
      if (base != 10) die("%s: symbolic digits in base %u", name.c_str(), base);
      z3::expr isd = z3::uge(*a[i].e, Z.bv_val('0', 8)) && z3::ule(*a[i].e, Z.bv_val('9', 8));
      bool md = may_be_true(s, isd), mn = may_be_true(s, !isd);
      if (md && mn) { ForkReq fr; fr.alts.push_back(isd); fr.alts.push_back(!isd); throw fr; }
      if (!md) break;
      if (allc)
      {
        // first symbolic digit: seed the accumulator with the concrete prefix
        if (cv_sat) die("%s: symbolic digits after an overflowing concrete prefix", name.c_str());
        acc = AW > 64 ? z3::concat(Z.bv_val((uint64_t)(cv >> 64), AW - 64), Z.bv_val((uint64_t)cv, 64)) : Z.bv_val((uint64_t)cv, 64);
      }
      allc = false;
      acc = acc * Z.bv_val(10, AW) + z3::zext(*a[i].e - Z.bv_val('0', 8), AW - 8);
    }
    if (i - start > 23 && !allc) die("%s: more than 23 symbolic digits", name.c_str());
    if (is_strto && args[1].isptr && args[1].obj >= 0) { Val e = args[0]; if (!e.conc) die("strtol on symbolic pointer"); e.c += (i == start ? 0 : i); do_store(s, args[1], e, 64); }
    // glibc semantics (strtol/strtoll saturate to LONG_MAX/LONG_MIN, strtoul to ULONG_MAX; atoi/atol/atoll are strtol casts)
    bool uns = name == "strtoul" || name == "strtoull";
    unsigned __int128 maxp = uns ? (unsigned __int128)0xffffffffffffffffULL : (unsigned __int128)0x7fffffffffffffffULL;
    unsigned __int128 maxn = uns ? maxp : (unsigned __int128)0x8000000000000000ULL;
    if (allc)
    {
      uint64_t v;
      if (!neg) v = (cv_sat || cv > maxp) ? (uint64_t)maxp : (uint64_t)cv;
      else v = (cv_sat || cv > maxn) ? (uns ? (uint64_t)maxp : 0x8000000000000000ULL) : (uint64_t)0 - (uint64_t)cv;
      ret_int(v); return true;
    }
    z3::expr lim = Z.bv_val((uint64_t)(neg ? maxn : maxp), 64);
    z3::expr over = AW > 64 ? z3::ugt(acc, z3::zext(lim, AW - 64)) : z3::ugt(acc, lim);
    z3::expr low = AW > 64 ? acc.extract(63, 0) : acc;
    z3::expr r = neg ? z3::ite(over, uns ? Z.bv_val((uint64_t)maxp, 64) : Z.bv_val((uint64_t)0x8000000000000000ULL, 64), -low) : z3::ite(over, lim, low);
    ret_val(mk_sym(rb, rb < 64 ? r.extract(rb - 1, 0) : r)); return true;
  }
  if (name == "atof" || name == "strtod")
  {
    std::string a = conc_str_fork(s, args[0], name.c_str());
    double d = atof(a.c_str()); uint64_t bits; memcpy(&bits, &d, 8);
    set_reg(s, ci, mk_int(64, bits)); return true;
  }

  // ---- allocation
  if (name == "malloc" || name == "calloc" || name == "_Znwm" || name == "_Znam")
  {
    Val nv = args[0];
    uint64_t n = concretize(s, nv, 16, "allocation size");
    if (name == "calloc") n *= concretize(s, args[1], 16, "calloc size");
    if (n > (1ULL << 28)) { violation(s, "hugealloc", "allocation of " + std::to_string(n) + " bytes", nullptr); throw PathEnd{"huge alloc"}; }
    int id = heap_alloc(s, n, name[0] == '_' ? OK_NEW : OK_MALLOC, name == "calloc");
    ret_val(mk_ptr(id, 0)); return true;
  }
  if (name == "realloc")
  {
    uint64_t n = concretize(s, args[1], 16, "realloc size");
    if (n > (1ULL << 28)) { violation(s, "hugealloc", "allocation of " + std::to_string(n) + " bytes", nullptr); throw PathEnd{"huge alloc"}; }
    int id = heap_alloc(s, n, OK_MALLOC, false);
    if (args[0].isptr && args[0].obj >= 0)
    {
      const Obj *o = find_obj(s, args[0].obj);
      if (!o || !o->alive) { violation(s, "uaf", "realloc of dead object", nullptr); throw PathEnd{"uaf"}; }
      uint64_t cp = std::min(n, o->size);
      std::vector<Byte> d = mem_read_raw(s, args[0], cp, "realloc");
      Obj &w = wobj(s, id); for (uint64_t i = 0; i < cp; i++) setb(w, i, d[i]);
      heap_free(s, args[0], OK_MALLOC, "realloc");
    }
    ret_val(mk_ptr(id, 0)); return true;
  }
  if (name == "free") { heap_free(s, args[0], OK_MALLOC, "free"); return true; }
  if (name == "_ZdlPv" || name == "_ZdaPv" || name == "_ZdlPvm" || name == "_ZdaPvm") { heap_free(s, args[0], OK_NEW, "delete"); return true; }

  // ---- misc
  if (name == "time") { ret_int(1700000000); return true; }
  if (name == "localtime" || name == "gmtime")
  {
    int id = new_obj(s, 64, "struct tm", OK_OTHER, true);
    Obj &o = wobj(s, id); setb(o, 12, cbyte(1)); setb(o, 20, cbyte(120));
    ret_val(mk_ptr(id, 0)); return true;
  }
  if (name == "__assert_fail")
  {
    std::string m = conc_str(s, args[0], "assert text");
    violation(s, "abort", "assert(" + m + ") failed", nullptr); throw PathEnd{"assert_fail"};
  }
  if (name == "__cxa_pure_virtual") { violation(s, "abort", "pure virtual call", nullptr); throw PathEnd{"pure virtual"}; }
  if (name == "abort") { violation(s, "abort", "abort() called", nullptr); throw PathEnd{"abort"}; }
  if (name == "exit" || name == "_exit")
  {
    // the status may be symbolic (e.g. a simulated program's exit code): it is passed on as it is
    Val codev = args[0];
    uint64_t code = codev.conc ? codev.c : 0;
    s.notes.push_back(Note{"exit", codev, "", false});
    if (EXIT_HOOK_OBJ >= 0 && !s.exited)
    {
      s.exited = true; s.exit_code = (int)code;
      const Function *hook = func_obj[EXIT_HOOK_OBJ];
      s.stack.clear();
      push_frame(s, hook, {codev}, nullptr);
      return true;
    }
    s.exited = true; s.exit_code = (int)code;
    throw PathEnd{"exit"};
  }
  die("no model for external function %s", name.c_str());
}
