// symx: path-wise symbolic executor for LLVM-14 IR with Z3.
// Core: values, chunked copy-on-write memory, states, solver interface.
#pragma once
#include <llvm/IR/Module.h>
#include <llvm/IR/LLVMContext.h>
#include <llvm/IR/Instructions.h>
#include <llvm/IR/IntrinsicInst.h>
#include <llvm/IR/Constants.h>
#include <llvm/IR/DataLayout.h>
#include <llvm/IR/Operator.h>
#include <llvm/IR/DebugInfoMetadata.h>
#include <llvm/IR/GetElementPtrTypeIterator.h>
#include <llvm/IRReader/IRReader.h>
#include <llvm/Support/SourceMgr.h>
#include <llvm/Support/raw_ostream.h>
#include <z3++.h>
#include <map>
#include <set>
#include <string>
#include <vector>
#include <memory>
#include <deque>
#include <chrono>
#include <atomic>
#include <thread>
#include <cstdio>
#include <cstdarg>
#include <cstring>
#include <cmath>

using namespace llvm;

static z3::context Z;
static const DataLayout *DL;
static Module *MOD;

[[noreturn]] static void die(const char *fmt, ...);

typedef std::shared_ptr<z3::expr> EP;
static EP mkep(const z3::expr &e) { return std::make_shared<z3::expr>(e); }
// ast ids are only stable while the ast is referenced: every expression whose id is
// remembered (known-sets, solver stack, rendered digits) is pinned for the whole run
static std::map<unsigned, z3::expr> *PINNED;
static unsigned eid(const z3::expr &e)
{
  unsigned id = Z3_get_ast_id(Z, e);
  if (!PINNED) PINNED = new std::map<unsigned, z3::expr>();
  if (!PINNED->count(id)) PINNED->emplace(id, e);
  return id;
}

struct PtrTarget { EP cond; int obj; uint64_t off; };
struct Val
{
  unsigned bits = 0;
  bool isptr = false;
  int obj = -1;            // pointer target object; -1 = null/integer-valued
  bool conc = true;
  uint64_t c = 0;
  EP e;                    // when !conc: bitvector of width bits (for ptr: 64-bit offset)
  // guarded multi-target pointer (obj == -2): one of several concrete (object, offset) pairs, selected by disjoint
  // conditions; produced by a load of a pointer through a symbolic index (e.g. regs[reg]) and consumed without
  // forking by the string functions; any other use resolves it by a case split
  std::shared_ptr<std::vector<PtrTarget>> multi;
};

static uint64_t maskbits(uint64_t v, unsigned bits) { return bits >= 64 ? v : (v & ((1ULL << bits) - 1)); }
static int64_t sext64(uint64_t v, unsigned bits) { if (bits >= 64) return (int64_t)v; uint64_t m = 1ULL << (bits - 1); v = maskbits(v, bits); return (int64_t)((v ^ m) - m); }
static Val mk_int(unsigned bits, uint64_t c) { Val v; v.bits = bits; v.c = maskbits(c, bits); return v; }
static double T_SIMPLIFY = 0, T_COPY = 0, T_ENUM = 0, T_MODEL = 0;
struct Timer { double &acc; std::chrono::steady_clock::time_point t0; Timer(double &a) : acc(a), t0(std::chrono::steady_clock::now()) {} ~Timer() { acc += std::chrono::duration<double>(std::chrono::steady_clock::now() - t0).count(); } };
static Val mk_sym(unsigned bits, const z3::expr &e)
{
  Timer tm(T_SIMPLIFY);
  z3::expr s = e.simplify();
  Val v; v.bits = bits;
  if (s.is_numeral()) { uint64_t c = 0; s.is_numeral_u64(c); v.c = maskbits(c, bits); return v; }
  v.conc = false; v.e = mkep(s); return v;
}
static Val mk_ptr(int obj, uint64_t off) { Val v; v.bits = 64; v.isptr = true; v.obj = obj; v.c = off; return v; }
static z3::expr ex(const Val &v) { if (v.conc) return Z.bv_val((uint64_t)v.c, v.bits); return *v.e; }
static Val with_off(const Val &p, const Val &off) { Val r = p; r.conc = off.conc; r.c = off.c; r.e = off.e; r.bits = 64; r.isptr = true; return r; }

// ---------------------------------------------------------------- memory
enum BK : uint8_t { BK_CONC = 0, BK_SYM = 1, BK_PTR = 2, BK_UNINIT = 3 };

struct Byte
{
  BK k = BK_UNINIT;
  uint8_t c = 0;
  EP e;                       // SYM: 8-bit expr
  int pobj = -1; uint64_t poff = 0; EP poffe; uint8_t pidx = 0;   // PTR byte pidx of pointer (pobj, poff|poffe)
  EP whole; uint8_t widx = 0, wn = 0;   // SYM: this byte is byte widx of the wn-byte value 'whole' (lets loads recombine without concat/extract)
};
static Byte cbyte(uint8_t c) { Byte b; b.k = BK_CONC; b.c = c; return b; }
static Byte sbyte(const z3::expr &e)
{
  z3::expr s = e.simplify();
  if (s.is_numeral()) { uint64_t c = 0; s.is_numeral_u64(c); return cbyte((uint8_t)c); }
  Byte b; b.k = BK_SYM; b.e = mkep(s); return b;
}

struct Extra { EP e; int pobj = -1; uint64_t poff = 0; EP poffe; uint8_t pidx = 0; EP whole; uint8_t widx = 0, wn = 0; };
static const unsigned CHUNK = 256;
struct Chunk
{
  uint8_t k[CHUNK];
  uint8_t c[CHUNK];
  std::map<uint16_t, Extra> ex;
};
static std::shared_ptr<Chunk> ZERO_CHUNK, UNINIT_CHUNK;
static void init_chunks()
{
  ZERO_CHUNK = std::make_shared<Chunk>(); memset(ZERO_CHUNK->k, BK_CONC, CHUNK); memset(ZERO_CHUNK->c, 0, CHUNK);
  UNINIT_CHUNK = std::make_shared<Chunk>(); memset(UNINIT_CHUNK->k, BK_UNINIT, CHUNK); memset(UNINIT_CHUNK->c, 0, CHUNK);
}

enum OK : uint8_t { OK_GLOBAL, OK_STACK, OK_MALLOC, OK_NEW, OK_FUNC, OK_FILE, OK_OTHER };
struct Obj
{
  uint64_t size = 0;
  std::vector<std::shared_ptr<Chunk>> ch;
  bool alive = true;
  bool readonly = false;
  OK kind = OK_OTHER;
  std::string name;
};

static Byte getb(const Obj &o, uint64_t off)
{
  const Chunk &c = *o.ch[off / CHUNK]; unsigned i = off % CHUNK;
  Byte b; b.k = (BK)c.k[i]; b.c = c.c[i];
  if (b.k == BK_SYM || b.k == BK_PTR)
  {
    auto it = c.ex.find(i);
    if (it == c.ex.end()) die("memory: missing extra");
    b.e = it->second.e; b.pobj = it->second.pobj; b.poff = it->second.poff; b.poffe = it->second.poffe; b.pidx = it->second.pidx;
    b.whole = it->second.whole; b.widx = it->second.widx; b.wn = it->second.wn;
  }
  return b;
}
static Chunk &wchunk(Obj &o, uint64_t ci)
{
  auto &p = o.ch[ci];
  if (p.use_count() > 1 || p == ZERO_CHUNK || p == UNINIT_CHUNK) p = std::make_shared<Chunk>(*p);
  return *p;
}
static void setb(Obj &o, uint64_t off, const Byte &b)
{
  Chunk &c = wchunk(o, off / CHUNK); unsigned i = off % CHUNK;
  if (c.k[i] == BK_SYM || c.k[i] == BK_PTR) c.ex.erase(i);
  c.k[i] = b.k; c.c[i] = b.c;
  if (b.k == BK_SYM || b.k == BK_PTR) { Extra x; x.e = b.e; x.pobj = b.pobj; x.poff = b.poff; x.poffe = b.poffe; x.pidx = b.pidx; x.whole = b.whole; x.widx = b.widx; x.wn = b.wn; c.ex[i] = x; }
}
static void fillb(Obj &o, uint64_t off, uint64_t n, const Byte &b)
{
  uint64_t i = off, end = off + n;
  while (i < end)
  {
    if (i % CHUNK == 0 && end - i >= CHUNK && (b.k == BK_CONC && b.c == 0)) { o.ch[i / CHUNK] = ZERO_CHUNK; i += CHUNK; continue; }
    if (i % CHUNK == 0 && end - i >= CHUNK && b.k == BK_UNINIT) { o.ch[i / CHUNK] = UNINIT_CHUNK; i += CHUNK; continue; }
    if (b.k == BK_CONC)
    {
      // fast path inside one chunk
      Chunk &c = wchunk(o, i / CHUNK);
      uint64_t lim = std::min(end, (i / CHUNK + 1) * CHUNK);
      for (; i < lim; i++) { unsigned j = i % CHUNK; if (c.k[j] == BK_SYM || c.k[j] == BK_PTR) c.ex.erase(j); c.k[j] = BK_CONC; c.c[j] = b.c; }
      continue;
    }
    setb(o, i, b); i++;
  }
}
static std::shared_ptr<Obj> make_obj(uint64_t size, const std::string &name, OK kind, bool zero)
{
  auto o = std::make_shared<Obj>(); o->size = size; o->name = name; o->kind = kind;
  o->ch.assign((size + CHUNK - 1) / CHUNK + 1, zero ? ZERO_CHUNK : UNINIT_CHUNK);
  return o;
}

// ---------------------------------------------------------------- state
struct FnInfo { std::map<const Value *, unsigned> idx; unsigned n = 0; };
static std::map<const Function *, FnInfo> FNINFO;

struct Frame
{
  const Function *fn = nullptr;
  const FnInfo *fi = nullptr;
  const BasicBlock *bb = nullptr, *prev = nullptr;
  BasicBlock::const_iterator ip;
  std::vector<Val> regs;
  std::vector<uint8_t> have;
  std::vector<int> allocas;
  const CallInst *callsite = nullptr;
  std::vector<Val> varargs;
};

struct Note { std::string tag; Val v; std::string text; bool is_text = false; };
struct Input { std::string name; unsigned bits; EP e; };
struct VFile { std::vector<Byte> data; bool exists = true; };
struct Stream { std::string name; uint64_t pos = 0; bool open = true; bool writable = false; bool readable = false; int unget = -1; bool eof = false; };
struct Rendered { std::vector<unsigned> digit_ids; std::vector<Byte> digit_bytes; EP value; unsigned guard_id; bool neg; };

struct State
{
  std::vector<Frame> stack;
  std::map<int, std::shared_ptr<Obj>> mem;      // writable objects only
  std::vector<z3::expr> pc;
  std::set<unsigned> known;                     // ast ids known to be implied by pc
  std::shared_ptr<z3::model> model;             // a model of pc, when available
  int next_obj = 1;
  uint64_t steps = 0;
  int nsym = 0;
  std::vector<Note> notes;
  std::vector<Input> inputs;
  std::map<std::string, std::shared_ptr<VFile>> files;
  std::map<int, Stream> streams;                // keyed by FILE object id
  std::vector<Rendered> rendered;
  std::set<std::string> covers;
  size_t input_cursor = 0;                      // concrete-input mode
  bool exited = false; int exit_code = 0;
  uint64_t heap_bytes = 0;                      // total bytes ever allocated on this path
};

static std::vector<std::shared_ptr<Obj>> GOBJ;   // read-only / function objects, shared by all states (index = id)
static int FIRST_DYNAMIC = 1;

static const Obj *find_obj(const State &s, int id)
{
  auto it = s.mem.find(id);
  if (it != s.mem.end()) return it->second.get();
  if (id > 0 && id < (int)GOBJ.size() && GOBJ[id]) return GOBJ[id].get();
  return nullptr;
}
static Obj &wobj(State &s, int id)
{
  auto it = s.mem.find(id);
  if (it == s.mem.end()) die("write to object %d that is not writable", id);
  auto &p = it->second;
  if (p.use_count() > 1) p = std::make_shared<Obj>(*p);
  return *p;
}
static int new_obj(State &s, uint64_t size, const std::string &name, OK kind, bool zero = false)
{
  int id = s.next_obj++;
  s.mem[id] = make_obj(size, name, kind, zero);
  return id;
}

// ---------------------------------------------------------------- stats / options
struct Stats
{
  uint64_t unknown_paths = 0, pruned_render = 0, paths = 0, completed = 0, infeasible = 0, queries = 0, steps = 0, forks = 0, cache_hits = 0, model_hits = 0, asserts_checked = 0, abandoned = 0;
  double solver_s = 0;
} ST;

struct Options
{
  uint64_t max_paths = 1000000, max_steps = 5000000, max_violations = 50, samples = 8;
  double timeout_s = 1e9;
  unsigned query_timeout_ms = 30000;
  unsigned max_stack = 3000;
  std::string out, inputs_file;
  bool concrete_inputs = false;
  std::vector<uint64_t> concrete;
  uint64_t seed = 0;
  bool uf_muldiv = false;
  bool tolerate_unknown = false; // a solver 'unknown' ends that path (counted) instead of making the whole run inconclusive
  unsigned support_bits = 16;    // a symbolic table index depending on at most this many input bits is enumerated through those bits
  bool merge_ptrs = false;       // build guarded multi-target pointers for pointer loads through a symbolic index (good when the text is not parsed again)
  bool false_first = false;      // on a two-way fork continue with the false side first (reaches 'no table row matched' paths early)
  unsigned render_classes = 0;   // 0: explore every digit-count class of a rendered symbolic integer; N: only N of them (shortest, longest, middle)
  bool verbose = false;
} OPT;

struct Violation { std::string kind, msg, fn, loc, key; std::vector<std::pair<Input, std::string>> inputs; std::vector<std::pair<std::string, std::string>> notes; uint64_t count = 1; };
static std::vector<Violation> VIOLS;
static std::map<std::string, size_t> VIOL_INDEX;
static bool INCONCLUSIVE = false; static std::string INCONCLUSIVE_WHY;

// request to terminate the current path quietly (after a reported violation)
struct PathEnd { const char *why; };

// ---------------------------------------------------------------- solver
static z3::solver *SOLVER;
static std::vector<unsigned> SOLVER_STACK;

static void sync_solver(State &s)
{
  size_t k = 0;
  while (k < SOLVER_STACK.size() && k < s.pc.size() && SOLVER_STACK[k] == eid(s.pc[k])) k++;
  if (k < SOLVER_STACK.size()) { SOLVER->pop(SOLVER_STACK.size() - k); SOLVER_STACK.resize(k); }
  for (; k < s.pc.size(); k++) { SOLVER->push(); SOLVER->add(s.pc[k]); SOLVER_STACK.push_back(eid(s.pc[k])); }
}

// z3 4.8.12 does not always honour the solver's "timeout" parameter (some preprocessing phases are not
// interruptible by it): a watchdog thread cancels a check() that runs past the query timeout, which then
// answers unknown like a regular timeout
static std::atomic<long long> CHECK_DEADLINE_MS{0};     // 0: no check in flight
static long long now_ms() { return std::chrono::duration_cast<std::chrono::milliseconds>(std::chrono::steady_clock::now().time_since_epoch()).count(); }
static void start_watchdog()
{
  static bool started = false;
  if (started) return;
  started = true;
  std::thread([] {
    for (;;)
    {
      std::this_thread::sleep_for(std::chrono::milliseconds(200));
      long long d = CHECK_DEADLINE_MS.load();
      if (d != 0 && now_ms() > d) { Z3_interrupt(Z); std::this_thread::sleep_for(std::chrono::milliseconds(800)); }
    }
  }).detach();
}
static z3::check_result guarded_check()
{
  start_watchdog();
  CHECK_DEADLINE_MS.store(now_ms() + (long long)OPT.query_timeout_ms + 2000);
  z3::check_result r;
  try { r = SOLVER->check(); } catch (z3::exception &) { r = z3::unknown; }
  CHECK_DEADLINE_MS.store(0);
  return r;
}

// returns sat/unsat/unknown for pc && extra; on sat stores the model in *out when given
static z3::check_result solve(State &s, const z3::expr *extra, std::shared_ptr<z3::model> *out)
{
  auto t0 = std::chrono::steady_clock::now();
  sync_solver(s);
  z3::check_result r;
  if (extra) { SOLVER->push(); SOLVER->add(*extra); }
  r = guarded_check();
  if (r == z3::sat && out) *out = std::make_shared<z3::model>(SOLVER->get_model());
  if (extra) SOLVER->pop();
  ST.queries++;
  double dt = std::chrono::duration<double>(std::chrono::steady_clock::now() - t0).count();
  ST.solver_s += dt;
  if (OPT.verbose && dt > 0.05) fprintf(stderr, "symx: slow query %.3fs (%s) pc=%zu: %s\n", dt, r == z3::sat ? "sat" : r == z3::unsat ? "unsat" : "unknown", s.pc.size(), extra ? extra->to_string().substr(0, 400).c_str() : "(pc)");
  if (r == z3::unknown)
  {
    if (OPT.tolerate_unknown) { ST.unknown_paths++; throw PathEnd{"solver unknown"}; }
    INCONCLUSIVE = true; INCONCLUSIVE_WHY = "solver returned unknown (timeout " + std::to_string(OPT.query_timeout_ms) + " ms)";
    if (OPT.verbose) { fprintf(stderr, "symx: UNKNOWN query: %s\n  pc:\n", extra ? extra->to_string().substr(0, 1500).c_str() : "(pc)"); for (auto &c : s.pc) fprintf(stderr, "   %s\n", c.to_string().substr(0, 300).c_str()); }
  }
  return r;
}

static int model_truth(State &s, const z3::expr &c)
{
  if (!s.model) return -1;
  Timer tm(T_MODEL);
  z3::expr v = s.model->eval(c, true);
  if (v.is_true()) return 1;
  if (v.is_false()) return 0;
  return -1;
}

// Is pc && c satisfiable?  (unknown counts as "may", and marks the run inconclusive)
static bool may_be_true(State &s, const z3::expr &c0, std::shared_ptr<z3::model> *mout = nullptr)
{
  z3::expr c = c0.simplify();
  if (c.is_true()) { if (mout) *mout = s.model; return true; }
  if (c.is_false()) return false;
  if (s.known.count(eid(c))) { ST.cache_hits++; if (mout) *mout = s.model; return true; }
  z3::expr nc = (!c).simplify();
  if (s.known.count(eid(nc))) { ST.cache_hits++; return false; }
  if (model_truth(s, c) == 1) { ST.model_hits++; if (mout) *mout = s.model; return true; }
  std::shared_ptr<z3::model> m;
  z3::check_result r = solve(s, &c, &m);
  if (r == z3::unsat) { s.known.insert(eid(nc)); return false; }
  if (r == z3::sat) { if (!s.model) s.model = m; if (mout) *mout = m; }
  return true;
}
static bool must_be_true(State &s, const z3::expr &c) { return !may_be_true(s, !c); }

static void add_constraint(State &s, const z3::expr &c0)
{
  z3::expr c = c0.simplify();
  if (c.is_true()) return;
  if (s.known.count(eid(c))) return;
  s.pc.push_back(c);
  s.known.insert(eid(c));
  if (s.model && model_truth(s, c) != 1) s.model.reset();
}

static std::vector<uint64_t> feasible_values(State &s, const z3::expr &e, unsigned limit)
{
  std::vector<uint64_t> out;
  z3::expr se = e.simplify();
  if (se.is_numeral()) { uint64_t c = 0; se.is_numeral_u64(c); out.push_back(c); return out; }
  auto t0 = std::chrono::steady_clock::now();
  sync_solver(s);
  SOLVER->push();
  unsigned w = e.get_sort().bv_size();
  while (out.size() <= limit)
  {
    ST.queries++;
    z3::check_result r = guarded_check();
    // an enumeration that needs thousands of solver calls must not outlive the engine's time budget
    if (r == z3::sat && std::chrono::duration<double>(std::chrono::steady_clock::now() - t0).count() > 3.0 * OPT.query_timeout_ms / 1000.0) r = z3::unknown;
    if (r == z3::unknown)
    {
      if (OPT.tolerate_unknown) { SOLVER->pop(); ST.unknown_paths++; throw PathEnd{"solver unknown"}; }
      INCONCLUSIVE = true; INCONCLUSIVE_WHY = "solver unknown in value enumeration"; break;
    }
    if (r != z3::sat) break;
    z3::model m = SOLVER->get_model();
    z3::expr v = m.eval(e, true);
    uint64_t c = 0; v.is_numeral_u64(c);
    out.push_back(c);
    SOLVER->add(e != Z.bv_val(c, w));
  }
  SOLVER->pop();
  ST.solver_s += std::chrono::duration<double>(std::chrono::steady_clock::now() - t0).count();
  return out;
}

// ---- small-support enumeration: an expression over a few narrow variables (e.g. an opcode byte) is
// enumerated through those variables, so the solver only ever sees (var == value) instead of offset arithmetic
static void free_vars_rec(const z3::expr &e, std::set<unsigned> &seen, std::vector<z3::expr> &vars, unsigned &bits, unsigned limit)
{
  if (bits > limit) return;
  unsigned id = Z3_get_ast_id(Z, e);
  if (seen.count(id)) return;
  seen.insert(id);
  if (e.is_const() && !e.is_numeral())
  {
    if (e.is_bv()) { vars.push_back(e); bits += e.get_sort().bv_size(); }
    else if (!e.is_bool() || (!e.is_true() && !e.is_false())) bits = limit + 1;
    return;
  }
  if (!e.is_app()) { bits = limit + 1; return; }
  if (e.is_app() && e.decl().decl_kind() == Z3_OP_UNINTERPRETED && e.num_args() > 0) { bits = limit + 1; return; }
  for (unsigned i = 0; i < e.num_args(); i++) free_vars_rec(e.arg(i), seen, vars, bits, limit);
}
struct Support { std::vector<z3::expr> vars; unsigned bits = 0; bool ok = false; };
static Support small_support(const z3::expr &e, unsigned limit)
{
  Support sp; std::set<unsigned> seen;
  free_vars_rec(e, seen, sp.vars, sp.bits, limit);
  sp.ok = sp.bits <= limit && !sp.vars.empty();
  return sp;
}
static z3::expr support_cat(const Support &sp)
{
  z3::expr cat = sp.vars[0];
  for (size_t i = 1; i < sp.vars.size(); i++) cat = z3::concat(cat, sp.vars[i]);
  return cat;
}
// value of e under the assignment cat == a
static uint64_t eval_under(const Support &sp, const z3::expr &e, uint64_t a)
{
  z3::expr_vector from(Z), to(Z);
  unsigned shift = sp.bits;
  for (auto &v : sp.vars)
  {
    unsigned w = v.get_sort().bv_size(); shift -= w;
    from.push_back(v); to.push_back(Z.bv_val((uint64_t)((a >> shift) & ((w >= 64) ? ~0ULL : ((1ULL << w) - 1))), w));
  }
  z3::expr r = z3::expr(e).substitute(from, to).simplify();
  uint64_t c = 0;
  if (!r.is_numeral_u64(c)) die("small-support evaluation did not produce a numeral");
  return c;
}

// variable sets of constraints (cached by ast id; asts are pinned by eid())
static std::map<unsigned, std::set<unsigned>> *VARSETS;
static void collect_var_ids(const z3::expr &e, std::set<unsigned> &seen, std::set<unsigned> &out)
{
  unsigned id = Z3_get_ast_id(Z, e);
  if (seen.count(id)) return;
  seen.insert(id);
  if (e.is_const() && !e.is_numeral()) { if (!e.is_true() && !e.is_false()) out.insert(id); return; }
  if (!e.is_app()) return;
  for (unsigned i = 0; i < e.num_args(); i++) collect_var_ids(e.arg(i), seen, out);
}
static const std::set<unsigned> &varset_of(const z3::expr &c)
{
  if (!VARSETS) VARSETS = new std::map<unsigned, std::set<unsigned>>();
  unsigned id = eid(c);
  auto it = VARSETS->find(id);
  if (it != VARSETS->end()) return it->second;
  std::set<unsigned> seen, out; collect_var_ids(c, seen, out);
  return (*VARSETS)[id] = out;
}
// feasible assignments of a small support: by concrete evaluation when the constraints mentioning the
// support's variables mention nothing else (independence), otherwise by solver enumeration
static std::vector<uint64_t> feasible_assignments(State &s, const Support &sp, bool *too_wide = nullptr)
{
  Timer tm(T_ENUM);
  std::set<unsigned> sv; for (auto &v : sp.vars) sv.insert(Z3_get_ast_id(Z, v));
  std::vector<z3::expr> rel; bool independent = sp.bits <= 12;
  if (independent)
    for (auto &c : s.pc)
    {
      const std::set<unsigned> &vs = varset_of(c);
      bool touches = false, only = true;
      for (unsigned v : vs) { if (sv.count(v)) touches = true; else only = false; }
      if (!touches) continue;
      if (!only) { independent = false; break; }
      rel.push_back(c);
    }
  // a support that is tied to other variables has to be enumerated by the solver, one call per assignment:
  // beyond 10 bits the caller enumerates the distinct values of the expression itself instead
  if (!independent && sp.bits > 10 && too_wide) { *too_wide = true; return {}; }
  if (!independent) return feasible_values(s, support_cat(sp), 70000);
  // cache keyed by the variables and the relevant constraints (all pinned, ids stable)
  static std::map<std::vector<unsigned>, std::vector<uint64_t>> cache;
  std::vector<unsigned> key; for (auto &v : sp.vars) key.push_back(eid(v)); key.push_back(0); for (auto &c : rel) key.push_back(eid(c));
  auto hit = cache.find(key);
  if (hit != cache.end()) return hit->second;
  z3::expr conj = Z.bool_val(true); for (auto &c : rel) conj = conj && c;
  std::vector<uint64_t> out;
  for (uint64_t a = 0; a < (1ULL << sp.bits); a++)
  {
    z3::expr_vector from(Z), to(Z);
    unsigned shift = sp.bits;
    for (auto &v : sp.vars) { unsigned w = v.get_sort().bv_size(); shift -= w; from.push_back(v); to.push_back(Z.bv_val((uint64_t)((a >> shift) & ((1ULL << w) - 1)), w)); }
    z3::expr r = conj.substitute(from, to).simplify();
    if (r.is_true()) out.push_back(a);
    else if (!r.is_false()) die("independent constraint did not evaluate to a constant");
  }
  cache[key] = out;
  return out;
}

// request to re-execute the current instruction under each alternative constraint
struct ForkReq { std::vector<z3::expr> alts; bool prechecked = false; };

static std::string val_str(State &s, const Val &v, z3::model *m)
{
  if (v.conc) return std::to_string(v.c);
  if (!m) return "?";
  z3::expr r = m->eval(*v.e, true);
  uint64_t c = 0; if (r.is_numeral_u64(c)) return std::to_string(c);
  return r.to_string();
}
