// symx: violations, loads/stores, constants, string helpers
#pragma once
#include "symx_core.h"

static std::string cur_loc(State &s)
{
  if (s.stack.empty()) return "";
  Frame &f = s.stack.back();
  BasicBlock::const_iterator it = f.ip;
  // ip already advanced past the executing instruction
  if (it != f.bb->begin()) --it;
  const DebugLoc &dl = it->getDebugLoc();
  if (dl) { std::string fn; if (auto *sc = dyn_cast_or_null<DIScope>(dl.getScope())) fn = sc->getFilename().str(); return fn + ":" + std::to_string(dl.getLine()); }
  return "";
}
static std::string cur_fn(State &s) { return s.stack.empty() ? "" : s.stack.back().fn->getName().str(); }
// nearest frame whose function is not a harness helper / libc-like, for stable keys
static std::string caller_chain(State &s, unsigned n)
{
  std::string r;
  for (size_t i = s.stack.size(); i > 0 && n > 0; i--, n--) { if (!r.empty()) r += "<"; r += s.stack[i - 1].fn->getName().str(); }
  return r;
}

static void violation(State &s, const std::string &kind, const std::string &msg, const z3::expr *cond)
{
  std::string fn = cur_fn(s), loc = cur_loc(s);
  std::string key = kind + "|" + fn + "|" + loc + "|" + msg;
  auto it = VIOL_INDEX.find(key);
  if (it != VIOL_INDEX.end()) { VIOLS[it->second].count++; return; }
  Violation v; v.kind = kind; v.msg = msg; v.fn = fn; v.loc = loc; v.key = key;
  std::shared_ptr<z3::model> m;
  if (cond)
  {
    z3::check_result r = z3::unknown;
    try { r = solve(s, cond, &m); } catch (PathEnd &) { return; }
    if (r != z3::sat)
    {
      // no verdict (solver timeout): never reported as a violation; the run is inconclusive
      if (r == z3::unknown && !OPT.tolerate_unknown) { INCONCLUSIVE = true; INCONCLUSIVE_WHY = "solver gave no verdict for a possible violation: " + kind + " " + msg; }
      return;
    }
  }
  else if (s.model) m = s.model;
  else { try { solve(s, nullptr, &m); } catch (PathEnd &) {} }
  for (auto &in : s.inputs)
  {
    std::string val = "0";
    if (m) { z3::expr r = m->eval(*in.e, true); uint64_t c = 0; if (r.is_numeral_u64(c)) val = std::to_string(c); }
    v.inputs.push_back({in, val});
  }
  for (auto &n : s.notes) v.notes.push_back({n.tag, n.is_text ? n.text : val_str(s, n.v, m.get())});
  v.notes.push_back({"stack", caller_chain(s, 6)});
  VIOL_INDEX[key] = VIOLS.size();
  VIOLS.push_back(v);
  if (OPT.verbose) fprintf(stderr, "symx: VIOLATION %s %s in %s at %s\n", kind.c_str(), msg.c_str(), fn.c_str(), loc.c_str());
}

static z3::expr byte_ex_fwd(const Byte &b) { return b.k == BK_CONC ? Z.bv_val((unsigned)b.c, 8) : *b.e; }
// ---------------------------------------------------------------- access checks
static const Obj *access_obj(State &s, const Val &p, const char *what)
{
  if (!p.isptr || p.obj < 0)
  {
    violation(s, "null", std::string(what) + ": null/invalid pointer dereference", nullptr);
    throw PathEnd{"null deref"};
  }
  const Obj *o = find_obj(s, p.obj);
  if (!o || !o->alive) { violation(s, "uaf", std::string(what) + ": access to dead object", nullptr); throw PathEnd{"dead object"}; }
  if (o->kind == OK_FUNC) { violation(s, "oob", std::string(what) + ": data access to function", nullptr); throw PathEnd{"func access"}; }
  return o;
}

static void check_access(State &s, const Val &p, uint64_t size, const char *what)
{
  const Obj *o = access_obj(s, p, what);
  uint64_t osz = o->size;
  if (p.conc)
  {
    if (p.c > osz || p.c + size > osz)
    {
      violation(s, "oob", std::string(what) + ": out-of-bounds access to " + o->name + " (offset " + std::to_string((int64_t)p.c) + ", size " + std::to_string(size) + ", object size " + std::to_string(osz) + ")", nullptr);
      throw PathEnd{"oob"};
    }
    return;
  }
  if (osz < size) { violation(s, "oob", std::string(what) + ": access larger than object " + o->name, nullptr); throw PathEnd{"oob"}; }
  z3::expr bad = z3::ugt(*p.e, Z.bv_val((uint64_t)(osz - size), 64));
  if (may_be_true(s, bad))
  {
    violation(s, "oob", std::string(what) + ": out-of-bounds access to " + o->name + " (symbolic offset, object size " + std::to_string(osz) + ")", &bad);
    if (!may_be_true(s, !bad)) throw PathEnd{"oob"};
    add_constraint(s, !bad);
  }
}

static Val load_conc(State &s, const Obj &o, uint64_t off, unsigned bits, bool want_ptr)
{
  unsigned n = (bits + 7) / 8;
  Byte b0 = getb(o, off);
  if (b0.k == BK_PTR && n == 8 && b0.pidx == 0)
  {
    Val v = mk_ptr(b0.pobj, b0.poff);
    if (b0.poffe) { v.conc = false; v.e = b0.poffe; }
    return v;
  }
  // fast concrete path
  bool allc = true; uint64_t cv = 0;
  {
    const Chunk *c = o.ch[off / CHUNK].get();
    for (unsigned i = 0; i < n; i++)
    {
      uint64_t a = off + i; if (a % CHUNK == 0) c = o.ch[a / CHUNK].get();
      if (c->k[a % CHUNK] != BK_CONC) { allc = false; break; }
      cv |= (uint64_t)c->c[a % CHUNK] << (8 * i);
    }
  }
  if (allc)
  {
    Val r = mk_int(bits, cv);
    if (want_ptr) { r.isptr = true; r.obj = -1; }
    return r;
  }
  if (b0.k == BK_SYM && b0.whole && b0.widx == 0 && b0.wn == n && bits == 8 * n)
  {
    bool same = true;
    for (unsigned i = 1; i < n && same; i++) { Byte b = getb(o, off + i); same = b.k == BK_SYM && b.whole && b.widx == i && b.wn == n && (b.whole == b0.whole || Z3_get_ast_id(Z, *b.whole) == Z3_get_ast_id(Z, *b0.whole)); }
    if (same) { Val r; r.bits = bits; r.conc = false; r.e = b0.whole; if (want_ptr) { r.isptr = true; r.obj = -1; } return r; }
  }
  z3::expr acc = Z.bv_val(0, 8);
  for (unsigned i = 0; i < n; i++)
  {
    Byte b = getb(o, off + i);
    z3::expr be = Z.bv_val(0, 8);
    if (b.k == BK_CONC) be = Z.bv_val((unsigned)b.c, 8);
    else if (b.k == BK_SYM) be = *b.e;
    else if (b.k == BK_UNINIT) be = Z.bv_const(("uninit!" + std::to_string(s.nsym++)).c_str(), 8);
    else { violation(s, "ptrbytes", "partial load of pointer bytes from " + o.name, nullptr); throw PathEnd{"partial pointer"}; }
    acc = (i == 0) ? be : z3::concat(be, acc);
  }
  if (bits % 8) acc = acc.extract(bits - 1, 0);
  Val r = mk_sym(bits, acc);
  if (want_ptr) { r.isptr = true; r.obj = -1; }
  return r;
}

static const unsigned MAX_SYM_TARGETS = 1024;

// an access whose symbolic offset has more feasible targets than the engine enumerates: the path is given up
// (counted with the solver-unknown paths when partial exploration is allowed, otherwise the run is inconclusive)
static void too_many_targets(State &s, const char *what)
{
  if (OPT.tolerate_unknown) { ST.unknown_paths++; throw PathEnd{"too many targets"}; }
  INCONCLUSIVE = true; INCONCLUSIVE_WHY = std::string(what) + ": symbolic offset with more than " + std::to_string(MAX_SYM_TARGETS) + " targets";
  throw PathEnd{"too many targets"};
}

static Val do_load(State &s, const Val &p, unsigned bits, bool want_ptr)
{
  uint64_t size = (bits + 7) / 8;
  check_access(s, p, size, "load");
  const Obj &o = *find_obj(s, p.obj);
  if (p.conc) return load_conc(s, o, p.c, bits, want_ptr);
  // enumerate the feasible offsets; through the narrow variables they depend on when possible
  Support sp = small_support(*p.e, OPT.support_bits);
  std::vector<std::pair<z3::expr, uint64_t>> targets;     // (condition, offset)
  bool too_wide = false;
  std::vector<uint64_t> as;
  if (sp.ok) as = feasible_assignments(s, sp, &too_wide);
  if (sp.ok && !too_wide)
  {
    z3::expr cat = support_cat(sp);
    std::map<uint64_t, std::vector<uint64_t>> byoff;
    for (uint64_t a : as) byoff[eval_under(sp, *p.e, a)].push_back(a);
    if (byoff.size() > MAX_SYM_TARGETS) too_many_targets(s, "load");
    for (auto &kv : byoff)
    {
      z3::expr c = Z.bool_val(false);
      for (uint64_t a : kv.second) c = c || (cat == Z.bv_val(a, sp.bits));
      targets.push_back({c.simplify(), kv.first});
    }
  }
  else
  {
    if (OPT.verbose) fprintf(stderr, "symx: enumerating load offset in %s: %s\n", o.name.c_str(), p.e->to_string().substr(0, 600).c_str());
    std::vector<uint64_t> offs = feasible_values(s, *p.e, MAX_SYM_TARGETS);
    if (offs.size() > MAX_SYM_TARGETS) too_many_targets(s, "load");
    for (uint64_t off : offs) targets.push_back({*p.e == Z.bv_val(off, 64), off});
  }
  if (targets.empty()) throw PathEnd{"infeasible"};
  uint64_t osz = o.size;
  // load every target, group by loaded value when pointers to different objects are involved
  std::vector<std::pair<z3::expr, Val>> vals;
  bool diff_objs = false; int first_obj = -2;
  for (auto &t : targets)
  {
    if (t.second + size > osz) continue;
    Val v = load_conc(s, o, t.second, bits, want_ptr);
    int ob = (v.isptr && v.obj >= 0) ? v.obj : -1;
    if (first_obj == -2) first_obj = ob; else if (ob != first_obj) diff_objs = true;
    vals.push_back({t.first, v});
  }
  if (vals.empty()) throw PathEnd{"infeasible"};
  if (diff_objs)
  {
    // pointers to different objects: case split, one alternative per distinct pointer value
    std::map<std::pair<int, uint64_t>, z3::expr> groups; std::vector<std::pair<int, uint64_t>> order;
    for (auto &cv : vals)
    {
      const Val &v = cv.second;
      std::pair<int, uint64_t> key = {(v.isptr && v.obj >= 0) ? v.obj : -1, v.conc ? v.c : (uint64_t)Z3_get_ast_id(Z, *v.e) + (1ULL << 62)};
      auto it = groups.find(key);
      if (it == groups.end()) { groups.emplace(key, cv.first); order.push_back(key); }
      else it->second = it->second || cv.first;
    }
    bool all_conc_ptrs = true;
    for (auto &cv : vals) if (!(cv.second.isptr && cv.second.obj >= 0 && cv.second.conc)) all_conc_ptrs = false;
    if (OPT.merge_ptrs && all_conc_ptrs && bits == 64)
    {
      Val mv; mv.bits = 64; mv.isptr = true; mv.obj = -2; mv.conc = true; mv.c = 0;
      mv.multi = std::make_shared<std::vector<PtrTarget>>();
      for (auto &k : order) mv.multi->push_back(PtrTarget{mkep(groups.at(k).simplify()), k.first, k.second});
      return mv;
    }
    ForkReq fr; for (auto &k : order) fr.alts.push_back(groups.at(k).simplify());
    fr.prechecked = true;      // every group contains an assignment the solver produced: feasible by construction
    throw fr;
  }
  Val acc = vals[0].second;
  for (size_t i = 1; i < vals.size(); i++)
  {
    const Val &v = vals[i].second;
    if (first_obj >= 0) { acc = with_off(acc, mk_sym(64, z3::ite(vals[i].first, ex(v), ex(acc)))); continue; }
    Val t = mk_sym(bits, z3::ite(vals[i].first, ex(v), ex(acc)));
    if (want_ptr) { t.isptr = true; t.obj = -1; }
    acc = t;
  }
  return acc;
}

static void store_conc(State &s, Obj &o, uint64_t off, const Val &v, unsigned bits)
{
  unsigned n = (bits + 7) / 8;
  if (v.isptr && v.obj >= 0)
  {
    if (n != 8) die("store of truncated pointer");
    for (unsigned i = 0; i < 8; i++) { Byte b; b.k = BK_PTR; b.pobj = v.obj; b.poff = v.c; if (!v.conc) b.poffe = v.e; b.pidx = i; setb(o, off + i, b); }
    return;
  }
  for (unsigned i = 0; i < n; i++)
  {
    if (v.conc) { setb(o, off + i, cbyte((v.c >> (8 * i)) & 0xff)); continue; }
    unsigned hi = std::min(bits - 1, 8 * i + 7);
    z3::expr be = v.e->extract(hi, 8 * i);
    if (hi - 8 * i + 1 < 8) be = z3::zext(be, 8 - (hi - 8 * i + 1));
    Byte nb = sbyte(be);
    if (nb.k == BK_SYM && bits == 8 * n && n > 1) { nb.whole = v.e; nb.widx = i; nb.wn = n; }
    setb(o, off + i, nb);
  }
}

static void do_store(State &s, const Val &p, const Val &v, unsigned bits)
{
  uint64_t size = (bits + 7) / 8;
  check_access(s, p, size, "store");
  const Obj *ro = find_obj(s, p.obj);
  if (ro->readonly) { violation(s, "rostore", "store to read-only object " + ro->name, nullptr); throw PathEnd{"ro store"}; }
  if (p.conc) { store_conc(s, wobj(s, p.obj), p.c, v, bits); return; }
  std::vector<uint64_t> offs = feasible_values(s, *p.e, MAX_SYM_TARGETS);
  if (offs.size() > MAX_SYM_TARGETS) too_many_targets(s, "store");
  if (offs.size() == 1) { store_conc(s, wobj(s, p.obj), offs[0], v, bits); return; }
  if (v.isptr && v.obj >= 0)
  {
    ForkReq fr; for (uint64_t o2 : offs) fr.alts.push_back(*p.e == Z.bv_val(o2, 64));
    throw fr;
  }
  uint64_t osz = ro->size;
  // byte-wise conditional update (handles overlapping targets correctly)
  std::set<uint64_t> bytes;
  for (uint64_t o : offs) if (o + size <= osz) for (uint64_t i = 0; i < size; i++) bytes.insert(o + i);
  Obj &o = wobj(s, p.obj);
  for (uint64_t a : bytes)
  {
    Byte old = getb(o, a);
    if (old.k == BK_PTR)
    {
      ForkReq fr; for (uint64_t o2 : offs) fr.alts.push_back(*p.e == Z.bv_val(o2, 64));
      throw fr;
    }
    z3::expr olde = old.k == BK_CONC ? Z.bv_val((unsigned)old.c, 8) : old.k == BK_SYM ? *old.e : Z.bv_const(("uninit!" + std::to_string(s.nsym++)).c_str(), 8);
    z3::expr ne = olde;
    for (uint64_t i = 0; i < size; i++)
    {
      if (a < i) continue;
      uint64_t start = a - i;
      if (start + size > osz) continue;
      unsigned hi = std::min(bits - 1, (unsigned)(8 * i + 7));
      z3::expr be = v.conc ? Z.bv_val((unsigned)((v.c >> (8 * i)) & 0xff), 8) : v.e->extract(hi, 8 * i);
      if (!v.conc && hi - 8 * i + 1 < 8) be = z3::zext(be, 8 - (hi - 8 * i + 1));
      ne = z3::ite(*p.e == Z.bv_val(start, 64), be, ne);
    }
    setb(o, a, sbyte(ne));
  }
}

// ---------------------------------------------------------------- constants
static std::map<const GlobalValue *, int> global_obj;
static std::map<int, const Function *> func_obj;
static std::map<const Function *, int> func_to_obj;

static Val const_val(const Constant *c)
{
  if (auto *ci = dyn_cast<ConstantInt>(c)) return mk_int(ci->getBitWidth(), ci->getZExtValue());
  if (isa<ConstantPointerNull>(c)) { Val v = mk_int(64, 0); v.isptr = true; return v; }
  if (isa<UndefValue>(c))
  {
    Type *t = c->getType();
    if (t->isPointerTy()) { Val v = mk_int(64, 0); v.isptr = true; return v; }
    if (t->isIntegerTy()) return mk_int(t->getIntegerBitWidth(), 0);
    if (t->isDoubleTy()) return mk_int(64, 0);
    if (t->isFloatTy()) return mk_int(32, 0);
    die("undef of unsupported type");
  }
  if (auto *cf = dyn_cast<ConstantFP>(c))
  {
    uint64_t b = cf->getValueAPF().bitcastToAPInt().getZExtValue();
    return mk_int(c->getType()->isDoubleTy() ? 64 : 32, b);
  }
  if (auto *g = dyn_cast<GlobalVariable>(c)) { auto it = global_obj.find(g); if (it == global_obj.end()) die("unknown global %s", g->getName().str().c_str()); return mk_ptr(it->second, 0); }
  if (auto *f = dyn_cast<Function>(c)) return mk_ptr(func_to_obj[f], 0);
  if (auto *ga = dyn_cast<GlobalAlias>(c)) return const_val(ga->getAliasee());
  if (auto *ce = dyn_cast<ConstantExpr>(c))
  {
    switch (ce->getOpcode())
    {
      case Instruction::BitCast: case Instruction::AddrSpaceCast: return const_val(ce->getOperand(0));
      case Instruction::GetElementPtr:
      {
        Val base = const_val(ce->getOperand(0));
        APInt off(64, 0);
        if (!cast<GEPOperator>(ce)->accumulateConstantOffset(*DL, off)) die("non-constant constant GEP");
        base.c += off.getSExtValue();
        return base;
      }
      case Instruction::PtrToInt: return const_val(ce->getOperand(0));
      case Instruction::IntToPtr: { Val v = const_val(ce->getOperand(0)); v.isptr = true; v.bits = 64; return v; }
      default: die("unsupported constant expression opcode %u", ce->getOpcode());
    }
  }
  std::string str; raw_string_ostream os(str); c->print(os);
  die("unsupported constant %s", os.str().c_str());
}

static void init_const(Obj &o, uint64_t off, const Constant *c)
{
  Type *t = c->getType();
  if (isa<ConstantAggregateZero>(c) || (isa<UndefValue>(c) && t->isAggregateType()))
  {
    fillb(o, off, DL->getTypeAllocSize(t), cbyte(0));
    return;
  }
  if (auto *cds = dyn_cast<ConstantDataSequential>(c))
  {
    uint64_t es = DL->getTypeAllocSize(cds->getElementType());
    if (es == 1) { for (unsigned i = 0; i < cds->getNumElements(); i++) setb(o, off + i, cbyte(cds->getElementAsInteger(i))); return; }
    for (unsigned i = 0; i < cds->getNumElements(); i++) init_const(o, off + i * es, cds->getElementAsConstant(i));
    return;
  }
  if (auto *ca = dyn_cast<ConstantArray>(c))
  {
    uint64_t es = DL->getTypeAllocSize(ca->getType()->getElementType());
    for (unsigned i = 0; i < ca->getNumOperands(); i++) init_const(o, off + i * es, ca->getOperand(i));
    return;
  }
  if (auto *cs = dyn_cast<ConstantStruct>(c))
  {
    const StructLayout *sl = DL->getStructLayout(cs->getType());
    fillb(o, off, DL->getTypeAllocSize(t), cbyte(0));
    for (unsigned i = 0; i < cs->getNumOperands(); i++) init_const(o, off + sl->getElementOffset(i), cs->getOperand(i));
    return;
  }
  Val v = const_val(c);
  State dummy;
  unsigned bits = t->isPointerTy() ? 64 : t->isDoubleTy() ? 64 : t->isFloatTy() ? 32 : t->getIntegerBitWidth();
  store_conc(dummy, o, off, v, bits);
}

// a multi-target pointer becomes an ordinary pointer: by elimination when the path condition leaves one target, else by a case split
static Val resolve_ptr(State &s, const Val &v)
{
  if (!v.multi) return v;
  std::vector<const PtrTarget *> feas;
  for (auto &t : *v.multi) if (may_be_true(s, *t.cond)) feas.push_back(&t);
  if (feas.empty()) throw PathEnd{"infeasible"};
  if (feas.size() > 1) { ForkReq fr; for (auto *t : feas) fr.alts.push_back(*t->cond); throw fr; }
  return mk_ptr(feas[0]->obj, feas[0]->off);
}

// ---------------------------------------------------------------- strings
// Read a NUL-terminated string.  Symbolic bytes that may or may not be NUL cause a fork.
static void read_cstr(State &s, const Val &p0, std::vector<Byte> &out, const char *what, uint64_t maxn = ~0ULL)
{
  if (p0.multi)
  {
    // read every feasible target; targets of equal length are merged byte-wise (no fork), different lengths case-split
    std::vector<std::pair<const PtrTarget *, std::vector<Byte>>> strs;
    for (auto &t : *p0.multi)
    {
      if (!may_be_true(s, *t.cond)) continue;
      std::vector<Byte> b; read_cstr(s, mk_ptr(t.obj, t.off), b, what, maxn);
      strs.push_back({&t, b});
    }
    if (strs.empty()) throw PathEnd{"infeasible"};
    std::map<size_t, z3::expr> bylen;
    for (auto &sb : strs) { auto it = bylen.find(sb.second.size()); if (it == bylen.end()) bylen.emplace(sb.second.size(), *sb.first->cond); else it->second = it->second || *sb.first->cond; }
    if (bylen.size() > 1) { ForkReq fr; for (auto &kv : bylen) fr.alts.push_back(kv.second.simplify()); throw fr; }
    size_t n = strs[0].second.size();
    for (size_t i = 0; i < n; i++)
    {
      bool same = true;
      for (auto &sb : strs) if (!(sb.second[i].k == BK_CONC && strs[0].second[i].k == BK_CONC && sb.second[i].c == strs[0].second[i].c)) same = false;
      if (same) { out.push_back(strs[0].second[i]); continue; }
      z3::expr e = byte_ex_fwd(strs[0].second[i]);
      for (size_t k = 1; k < strs.size(); k++) e = z3::ite(*strs[k].first->cond, byte_ex_fwd(strs[k].second[i]), e);
      out.push_back(sbyte(e));
    }
    return;
  }
  Val p = p0;
  if (p.isptr && p.obj >= 0 && !p.conc)
  {
    std::vector<uint64_t> offs = feasible_values(s, *p.e, 64);
    if (offs.size() > 64) die("%s: string pointer with >64 feasible offsets", what);
    if (offs.empty()) throw PathEnd{"infeasible"};
    if (offs.size() > 1) { ForkReq fr; for (uint64_t o2 : offs) fr.alts.push_back(*p.e == Z.bv_val(o2, 64)); throw fr; }
    p.conc = true; p.c = offs[0]; p.e.reset();
  }
  const Obj *o = access_obj(s, p, what);
  for (uint64_t i = p.c;; i++)
  {
    if (out.size() >= maxn) return;
    if (i >= o->size) { violation(s, "oob", std::string(what) + ": string read runs past the end of " + o->name + " (size " + std::to_string(o->size) + ")", nullptr); throw PathEnd{"oob"}; }
    Byte b = getb(*o, i);
    if (b.k == BK_CONC) { if (b.c == 0) return; out.push_back(b); continue; }
    if (b.k == BK_SYM)
    {
      z3::expr z = (*b.e == Z.bv_val(0, 8));
      bool mz = may_be_true(s, z), mnz = may_be_true(s, !z);
      if (mz && mnz) { ForkReq fr; fr.alts.push_back(z); fr.alts.push_back(!z); throw fr; }
      if (mz) return;
      out.push_back(b); continue;
    }
    if (b.k == BK_UNINIT) { violation(s, "uninit", std::string(what) + ": string read of uninitialised byte in " + o->name + " at offset " + std::to_string(i), nullptr); throw PathEnd{"uninit"}; }
    violation(s, "ptrbytes", std::string(what) + ": string read over pointer bytes in " + o->name, nullptr); throw PathEnd{"ptrbytes"};
  }
}

static std::string conc_str(State &s, const Val &p, const char *what)
{
  std::vector<Byte> b; read_cstr(s, p, b, what);
  std::string r;
  for (auto &x : b) { if (x.k != BK_CONC) die("%s: symbolic bytes in a string that must be concrete", what); r += (char)x.c; }
  return r;
}

// like conc_str, but symbolic bytes are case-split over their feasible values (few alternatives expected)
static std::string conc_str_fork(State &s, const Val &p, const char *what)
{
  std::vector<Byte> b; read_cstr(s, p, b, what);
  std::string r;
  for (auto &x : b)
  {
    if (x.k == BK_CONC) { r += (char)x.c; continue; }
    std::vector<uint64_t> vals = feasible_values(s, *x.e, 64);
    if (vals.size() > 64) die("%s: symbolic byte with more than 64 feasible values", what);
    if (vals.empty()) throw PathEnd{"infeasible"};
    if (vals.size() > 1) { ForkReq fr; for (uint64_t v : vals) fr.alts.push_back(*x.e == Z.bv_val(v, 8)); throw fr; }
    r += (char)vals[0];
  }
  return r;
}

static void write_bytes(State &s, const Val &p0, const std::vector<Byte> &bytes, bool nul, const char *what)
{
  uint64_t n = bytes.size() + (nul ? 1 : 0);
  if (n == 0) return;
  Val p = p0;
  if (p.isptr && p.obj >= 0 && !p.conc)
  {
    std::vector<uint64_t> offs = feasible_values(s, *p.e, 64);
    if (offs.size() > 64) die("%s: destination with >64 feasible offsets", what);
    if (offs.empty()) throw PathEnd{"infeasible"};
    if (offs.size() > 1) { ForkReq fr; for (uint64_t o2 : offs) fr.alts.push_back(*p.e == Z.bv_val(o2, 64)); throw fr; }
    p.conc = true; p.c = offs[0]; p.e.reset();
  }
  check_access(s, p, n, what);
  if (find_obj(s, p.obj)->readonly) { violation(s, "rostore", std::string(what) + ": write to read-only object", nullptr); throw PathEnd{"ro"}; }
  Obj &o = wobj(s, p.obj);
  for (uint64_t i = 0; i < bytes.size(); i++) setb(o, p.c + i, bytes[i]);
  if (nul) setb(o, p.c + bytes.size(), cbyte(0));
}

static z3::expr byte_ex(const Byte &b) { return b.k == BK_CONC ? Z.bv_val((unsigned)b.c, 8) : *b.e; }
